import PbVerif.Model.Loess
/-! Lemmas about `_determine_fits` / `_fill_skips` (C05 index safety for arbitrary comparison
outcomes; C19 postconditions for sorted x). -/
namespace PbVerif.Lemmas
open PbVerif.Loess

/-! ### for ARBITRARY comparison outcomes (NaN, unsorted x): index safety -/

theorem determineFits_lengths (o : Oracle) (n tp : Nat) (check : Bool) :
    (determineFits o n tp check).1.length = (determineFits o n tp check).2.1.length := by sorry

/-- every write `fits[total_fits]`, `windows[total_fits]` is inside the length-N arrays -/
theorem determineFits_count (o : Oracle) (n tp : Nat) (check : Bool) (hn : 1 ≤ n) :
    (determineFits o n tp check).2.1.length ≤ n := by sorry

/-- every write `skips[total_skips]` is inside the (N, 2) array -/
theorem determineFits_skips_count (o : Oracle) (n tp : Nat) (check : Bool) (hn : 1 ≤ n) :
    (determineFits o n tp check).2.2.length ≤ n := by sorry

theorem determineFits_fits_lt (o : Oracle) (n tp : Nat) (check : Bool) (hn : 1 ≤ n) :
    ∀ f ∈ (determineFits o n tp check).2.1, f < n := by sorry

/-- **every window is exactly `total_points` indices inside `[0, N)`** — what makes the slices
`x[left:right]`, `kernels[i] = kernel`, `difference[0]`, `difference[-1]` of the loess kernels safe -/
theorem determineFits_windows_inb (o : Oracle) (n tp : Nat) (check : Bool) (hn : 1 ≤ n)
    (htp : 1 ≤ tp) (htpn : tp ≤ n) :
    ∀ w ∈ (determineFits o n tp check).1, 0 ≤ w.1 ∧ w.2 ≤ (n : Int) ∧ w.2 - w.1 = (tp : Int) := by sorry

/-- every skip range `[a, b)` handed to `_fill_skips` is non-empty and inside the data -/
theorem determineFits_skips_inb (o : Oracle) (n tp : Nat) (check : Bool) (hn : 1 ≤ n) :
    ∀ s ∈ (determineFits o n tp check).2.2, s.1 + 2 < s.2 + 1 ∧ s.2 ≤ n := by sorry

/-! ### for sorted, pairwise distinct x (what `loess` passes): the documented behaviour -/

/-- strictly increasing x -/
def StrictMonoL (x : List Rat) : Prop := ∀ i j, i < j → j < x.length → x.getD i 0 < x.getD j 0

/-- the first and last points are always fitted and fits are strictly increasing -/
theorem fits_sorted_ends (x : List Rat) (tp : Nat) (delta : Rat) (hn : 2 ≤ x.length) :
    let fits := (determineFitsX x tp delta).2.1
    fits.Pairwise (· < ·) ∧ fits.head? = some 0 ∧ fits.getLast? = some (x.length - 1) := by sorry

/-- with `delta ≤ 0` every point is fitted individually and nothing is skipped -/
theorem delta0_all (x : List Rat) (tp : Nat) (delta : Rat) (hd : delta ≤ 0) (hn : 1 ≤ x.length) :
    (determineFitsX x tp delta).2.1 = List.range x.length ∧ (determineFitsX x tp delta).2.2 = [] := by sorry

/-- every local fit's window contains the point being fitted -/
theorem windows_contain_fit (x : List Rat) (tp : Nat) (delta : Rat) (hx : StrictMonoL x)
    (hn : 1 ≤ x.length) (htp : 1 ≤ tp) (htpn : tp ≤ x.length) :
    let r := determineFitsX x tp delta
    ∀ k, k < r.2.1.length → (r.1.getD k (0, 0)).1 ≤ ((r.2.1.getD k 0 : Nat) : Int) ∧
      ((r.2.1.getD k 0 : Nat) : Int) < (r.1.getD k (0, 0)).2 := by sorry

/-- the skip ranges with a non-empty interior are exactly the gaps between consecutive fitted points:
a range `(a, b)` means `a` and `b - 1` are consecutive fits with at least one skipped point between
them. (When the tail is skipped the code also records the range `(last regular fit, N-1)`, whose
interior is empty if only the second to last point — which is then fitted itself — was skipped.) -/
theorem skips_are_gaps (x : List Rat) (tp : Nat) (delta : Rat) (hn : 2 ≤ x.length) :
    let r := determineFitsX x tp delta
    r.2.2.filter (fun s => s.1 + 2 < s.2) =
      ((r.2.1.zip r.2.1.tail).filter (fun p => p.1 + 1 < p.2)).map (fun p => (p.1, p.2 + 1)) := by sorry

/-- `_fill_skips`: a skipped point lies on the chord through its two fitted neighbours; fitted
points and points outside every skip range are unchanged -/
theorem fillSkips_chord (x b : List Rat) (l r k : Nat) (hlen : x.length = b.length) (hk : l < k ∧ k + 1 < r) (hr : r ≤ b.length) :
    (fillSkips x b [(l, r)]).getD k 0 =
      b.getD l 0 + (x.getD k 0 - x.getD l 0) * ((b.getD (r - 1) 0 - b.getD l 0) / (x.getD (r - 1) 0 - x.getD l 0)) := by sorry
theorem fillSkips_fixed (x b : List Rat) (l r k : Nat) (hk : ¬ (l < k ∧ k + 1 < r)) (hkb : k < b.length) :
    (fillSkips x b [(l, r)]).getD k 0 = b.getD k 0 := by sorry

end PbVerif.Lemmas
