import PbVerif.Lemmas.ThreadsCore
/-! C04: the Vandermonde / pseudo-inverse cache under every interleaving of calls with the same polynomial order. -/
set_option linter.unusedVariables false
namespace PbVerif.Lemmas
open PbVerif.Threads PbVerif.Threads.Poly

/-- threads of one scenario: the same order `k`, each with its own (calc_pinv, number of later uses) -/
def polyThreads (k : Nat) (cfg : List (Bool × Nat)) : List Thr := cfg.map fun c => thread k c.1 c.2

/-! ## the invariant: `G` on the shared state, `L` per thread, both preserved by every step (`step_post`);
`L` of the other threads survives a step because the step only makes an `Ext` change (`L.stable`) -/
namespace PolyInv

/-- a helper whose `poly_order` already is the common order `k`: its Vandermonde has order `k` and a
non-stale pseudo-inverse was computed from that Vandermonde -/
def Pub (k : Nat) (H : Helper) : Prop := H.po = (k : Int) ∧ H.v = some k ∧ (H.stale = false → H.pinv = some k)

/-- the helper left by the earlier call (order `j0 ≠ k`), before any thread stored `poly_order = k` -/
def Unpub (k j0 : Nat) (H : Helper) : Prop := H.po = (j0 : Int) ∧ j0 ≠ k ∧ (H.v = some j0 ∨ H.v = some k)

def OK (k j0 : Nat) (H : Helper) : Prop := Pub k H ∨ Unpub k j0 H

/-- how one helper may change -/
structure Evo (k j0 : Nat) (H H' : Helper) : Prop where
  ok : OK k j0 H → OK k j0 H'
  pub : Pub k H → Pub k H'
  v : H.v = some k → H'.v = some k
  pinv : Pub k H → H.pinv = some k → H'.pinv = some k
  st : Pub k H ∨ H.stale = true → Pub k H' ∨ H'.stale = true

theorem Evo.refl (k j0 : Nat) (H : Helper) : Evo k j0 H H := ⟨id, id, id, fun _ h => h, id⟩

def At (s : Sh) (h : Nat) (p : Helper → Prop) : Prop := ∃ H, s.heap[h]? = some H ∧ p H

def RefPub (k : Nat) (s : Sh) : Prop := ∃ r, s.ref = some r ∧ At s r (Pub k)

/-- how the shared state may change -/
structure Ext (k j0 : Nat) (s s' : Sh) : Prop where
  heap : ∀ (h : Nat) (H : Helper), s.heap[h]? = some H → ∃ H', s'.heap[h]? = some H' ∧ Evo k j0 H H'
  ref : s'.ref = s.ref ∨ RefPub k s'

theorem Ext.refl (k j0 : Nat) (s : Sh) : Ext k j0 s s := ⟨fun h H hH => ⟨H, hH, Evo.refl k j0 H⟩, Or.inl rfl⟩

structure G (k j0 : Nat) (s : Sh) : Prop where
  ok : ∀ (h : Nat) (H : Helper), s.heap[h]? = some H → OK k j0 H
  ref : ∀ (r : Nat), s.ref = some r → ∃ H, s.heap[r]? = some H

def Bound (k : Nat) (s : Sh) (h : Nat) : Prop := At s h (fun _ => True) ∧ (RefPub k s ∨ s.ref = some h)

theorem At.mono {s : Sh} {h : Nat} {p q : Helper → Prop} (hpq : ∀ H, p H → q H) : At s h p → At s h q := by
  rintro ⟨H, h1, h2⟩; exact ⟨H, h1, hpq H h2⟩

theorem At.stable {k j0 : Nat} {s s' : Sh} {h : Nat} {p : Helper → Prop} (hE : Ext k j0 s s')
    (hp : ∀ H H', Evo k j0 H H' → p H → p H') : At s h p → At s' h p := by
  rintro ⟨H, h1, h2⟩
  obtain ⟨H', h3, h4⟩ := hE.heap h H h1
  exact ⟨H', h3, hp H H' h4 h2⟩

theorem At.pub {k j0 : Nat} {s s' : Sh} {h : Nat} (hE : Ext k j0 s s') : At s h (Pub k) → At s' h (Pub k) :=
  At.stable hE fun H H' e => e.pub

theorem At.valid {k j0 : Nat} {s s' : Sh} {h : Nat} (hE : Ext k j0 s s') :
    At s h (fun _ => True) → At s' h (fun _ => True) :=
  At.stable hE fun H H' e => id

theorem At.vk {k j0 : Nat} {s s' : Sh} {h : Nat} (hE : Ext k j0 s s') :
    At s h (fun H => H.v = some k) → At s' h (fun H => H.v = some k) :=
  At.stable hE fun H H' e => e.v

theorem At.pinvk {k j0 : Nat} {s s' : Sh} {h : Nat} (hE : Ext k j0 s s') :
    At s h (fun H => Pub k H ∧ H.pinv = some k) → At s' h (fun H => Pub k H ∧ H.pinv = some k) :=
  At.stable hE fun H H' e hp => ⟨e.pub hp.1, e.pinv hp.1 hp.2⟩

theorem At.setk {k j0 : Nat} {s s' : Sh} {h : Nat} (hE : Ext k j0 s s') :
    At s h (fun H => H.v = some k ∧ (Pub k H ∨ H.stale = true)) →
    At s' h (fun H => H.v = some k ∧ (Pub k H ∨ H.stale = true)) :=
  At.stable hE fun H H' e hp => ⟨e.v hp.1, e.st hp.2⟩

theorem RefPub.stable {k j0 : Nat} {s s' : Sh} (hE : Ext k j0 s s') : RefPub k s → RefPub k s' := by
  rintro ⟨r, h1, h2⟩
  rcases hE.ref with h | h
  · exact ⟨r, h.trans h1, At.pub hE h2⟩
  · exact h

theorem Bound.stable {k j0 : Nat} {s s' : Sh} {h : Nat} (hE : Ext k j0 s s') : Bound k s h → Bound k s' h := by
  rintro ⟨h1, h2⟩
  refine ⟨At.valid hE h1, ?_⟩
  rcases h2 with h2 | h2
  · exact Or.inl (RefPub.stable hE h2)
  · rcases hE.ref with h | h
    · exact Or.inr (h.trans h2)
    · exact Or.inl h

theorem refne_stable {k j0 : Nat} {s s' : Sh} (hE : Ext k j0 s s') : s.ref ≠ none → s'.ref ≠ none := by
  intro h1
  rcases hE.ref with h | ⟨r, h, _⟩
  · rw [h]; exact h1
  · rw [h]; simp

def Got (k : Nat) (t : Thr) : Prop := t.calcPinv = true → t.gotPinv = some (some k)

/-- what a thread at a given program counter knows about the shared state -/
def Lpc (k j0 : Nat) (s : Sh) (t : Thr) : PC → Prop
  | .start => True
  | .publish => True
  | .bind => s.ref ≠ none
  | .rV0 h => Bound k s h
  | .rPo1 h => Bound k s h
  | .rPo2 h => Bound k s h ∧ (At s h (Pub k) ∨ k < j0)
  | .upV h => Bound k s h
  | .upS h => Bound k s h ∧ At s h (fun H => H.v = some k)
  | .dnR h => Bound k s h ∧ k < j0
  | .dnW h v => Bound k s h ∧ ∃ j', v = some j' ∧ k ≤ j'
  | .dnS h => Bound k s h ∧ At s h (fun H => H.v = some k)
  | .setPo h => Bound k s h ∧ At s h (fun H => H.v = some k ∧ (Pub k H ∨ H.stale = true))
  | .pinvBind => RefPub k s
  | .pStale h => RefPub k s ∧ At s h (Pub k)
  | .pNone h => RefPub k s ∧ At s h (fun H => Pub k H ∧ H.pinv = some k)
  | .pReadV h => RefPub k s ∧ At s h (Pub k)
  | .pWrite h v => RefPub k s ∧ At s h (Pub k) ∧ v = some k
  | .pClear h => RefPub k s ∧ At s h (fun H => Pub k H ∧ H.pinv = some k)
  | .pRet h => RefPub k s ∧ At s h (fun H => Pub k H ∧ H.pinv = some k)
  | .useBind _ => RefPub k s ∧ Got k t
  | .useV h _ => RefPub k s ∧ At s h (Pub k) ∧ Got k t
  | .done => Got k t
  | .error => False

def L (k j0 : Nat) (s : Sh) (t : Thr) : Prop := t.k = k ∧ t.usedOk = true ∧ Lpc k j0 s t t.pc

theorem Lpc.stable {k j0 : Nat} {s s' : Sh} (hE : Ext k j0 s s') (t : Thr) (pc : PC) :
    Lpc k j0 s t pc → Lpc k j0 s' t pc := by
  cases pc <;> simp only [Lpc]
  case start => exact id
  case publish => exact id
  case bind => exact refne_stable hE
  case rV0 h => exact Bound.stable hE
  case rPo1 h => exact Bound.stable hE
  case rPo2 h => exact fun ⟨a, b⟩ => ⟨Bound.stable hE a, b.imp (At.pub hE) id⟩
  case upV h => exact Bound.stable hE
  case upS h => exact fun ⟨a, b⟩ => ⟨Bound.stable hE a, At.vk hE b⟩
  case dnR h => exact fun ⟨a, b⟩ => ⟨Bound.stable hE a, b⟩
  case dnW h v => exact fun ⟨a, b⟩ => ⟨Bound.stable hE a, b⟩
  case dnS h => exact fun ⟨a, b⟩ => ⟨Bound.stable hE a, At.vk hE b⟩
  case setPo h => exact fun ⟨a, b⟩ => ⟨Bound.stable hE a, At.setk hE b⟩
  case pinvBind => exact RefPub.stable hE
  case pStale h => exact fun ⟨a, b⟩ => ⟨RefPub.stable hE a, At.pub hE b⟩
  case pNone h => exact fun ⟨a, b⟩ => ⟨RefPub.stable hE a, At.pinvk hE b⟩
  case pReadV h => exact fun ⟨a, b⟩ => ⟨RefPub.stable hE a, At.pub hE b⟩
  case pWrite h v => exact fun ⟨a, b, c⟩ => ⟨RefPub.stable hE a, At.pub hE b, c⟩
  case pClear h => exact fun ⟨a, b⟩ => ⟨RefPub.stable hE a, At.pinvk hE b⟩
  case pRet h => exact fun ⟨a, b⟩ => ⟨RefPub.stable hE a, At.pinvk hE b⟩
  case useBind n => exact fun ⟨a, b⟩ => ⟨RefPub.stable hE a, b⟩
  case useV h n => exact fun ⟨a, b, c⟩ => ⟨RefPub.stable hE a, At.pub hE b, c⟩
  case done => exact id
  case error => exact id

theorem L.stable {k j0 : Nat} {s s' : Sh} (hE : Ext k j0 s s') (t : Thr) : L k j0 s t → L k j0 s' t :=
  fun ⟨a, b, c⟩ => ⟨a, b, Lpc.stable hE t t.pc c⟩

/-! ### writes to one helper -/

theorem getElem?_upd (s : Sh) (h : Nat) (f : Helper → Helper) (j : Nat) :
    (upd s h f).heap[j]? = if h = j then s.heap[j]?.map f else s.heap[j]? := by
  simp only [upd, List.getElem?_modify]
  by_cases hj : h = j
  · simp [hj]
  · simp [hj]

theorem Ext_upd {k j0 : Nat} (s : Sh) (h : Nat) (f : Helper → Helper)
    (hE : ∀ H, s.heap[h]? = some H → Evo k j0 H (f H)) : Ext k j0 s (upd s h f) := by
  refine ⟨fun j H hH => ?_, Or.inl rfl⟩
  rw [getElem?_upd]
  by_cases hj : h = j
  · subst hj
    exact ⟨f H, by simp [hH], hE H hH⟩
  · exact ⟨H, by simp [hj, hH], Evo.refl k j0 H⟩

theorem G_upd {k j0 : Nat} (s : Sh) (h : Nat) (f : Helper → Helper) (hG : G k j0 s)
    (hE : ∀ H, s.heap[h]? = some H → Evo k j0 H (f H)) : G k j0 (upd s h f) := by
  refine ⟨fun j H' hH' => ?_, fun r hr => ?_⟩
  · rw [getElem?_upd] at hH'
    by_cases hj : h = j
    · subst hj
      simp only [if_true] at hH'
      cases hH : s.heap[h]? with
      | none => simp [hH] at hH'
      | some H =>
        simp [hH] at hH'
        subst hH'
        exact (hE H hH).ok (hG.ok h H hH)
    · simp only [hj, if_false] at hH'
      exact hG.ok j H' hH'
  · obtain ⟨H, hH⟩ := hG.ref r hr
    obtain ⟨H', h1, _⟩ := (Ext_upd (k := k) (j0 := j0) s h f hE).heap r H hH
    exact ⟨H', h1⟩

theorem At_upd_self (s : Sh) (h : Nat) (f : Helper → Helper) (p : Helper → Prop) :
    At s h (fun H => p (f H)) → At (upd s h f) h p := by
  rintro ⟨H, h1, h2⟩
  exact ⟨f H, by simp [getElem?_upd, h1], h2⟩


theorem At.get {s : Sh} {h : Nat} {p : Helper → Prop} {H : Helper} (hA : At s h p) (hH : s.heap[h]? = some H) : p H := by
  obtain ⟨H2, h2, hp⟩ := hA
  rw [hH] at h2
  cases h2
  exact hp

/-! ### the individual writes -/

theorem Evo_setV (k j0 : Nat) (H : Helper) : Evo k j0 H { H with v := some k } where
  ok := by
    rintro (hp | hu)
    · exact Or.inl ⟨hp.1, rfl, hp.2.2⟩
    · exact Or.inr ⟨hu.1, hu.2.1, Or.inr rfl⟩
  pub := fun hp => ⟨hp.1, rfl, hp.2.2⟩
  v := fun _ => rfl
  pinv := fun _ h => h
  st := by
    rintro (hp | hs)
    · exact Or.inl ⟨hp.1, rfl, hp.2.2⟩
    · exact Or.inr hs

theorem Evo_setStale (k j0 : Nat) (H : Helper) : Evo k j0 H { H with stale := true } where
  ok := by
    rintro (hp | hu)
    · exact Or.inl ⟨hp.1, hp.2.1, fun h => by cases h⟩
    · exact Or.inr ⟨hu.1, hu.2.1, hu.2.2⟩
  pub := fun hp => ⟨hp.1, hp.2.1, fun h => by cases h⟩
  v := fun h => h
  pinv := fun _ h => h
  st := fun _ => Or.inr rfl

theorem Pub_setPo (k : Nat) (H : Helper) (hv : H.v = some k) (hs : Pub k H ∨ H.stale = true) :
    Pub k { H with po := (k : Int) } := by
  refine ⟨rfl, hv, fun hst => ?_⟩
  rcases hs with hp | hs
  · exact hp.2.2 hst
  · simp only at hst; rw [hs] at hst; cases hst

theorem Evo_setPo (k j0 : Nat) (H : Helper) (hv : H.v = some k) (hs : Pub k H ∨ H.stale = true) :
    Evo k j0 H { H with po := (k : Int) } where
  ok := fun _ => Or.inl (Pub_setPo k H hv hs)
  pub := fun _ => Pub_setPo k H hv hs
  v := fun h => h
  pinv := fun _ h => h
  st := fun _ => Or.inl (Pub_setPo k H hv hs)

theorem Evo_setPinv (k j0 : Nat) (H : Helper) : Evo k j0 H { H with pinv := some k } where
  ok := by
    rintro (hp | hu)
    · exact Or.inl ⟨hp.1, hp.2.1, fun _ => rfl⟩
    · exact Or.inr ⟨hu.1, hu.2.1, hu.2.2⟩
  pub := fun hp => ⟨hp.1, hp.2.1, fun _ => rfl⟩
  v := fun h => h
  pinv := fun _ _ => rfl
  st := by
    rintro (hp | hs)
    · exact Or.inl ⟨hp.1, hp.2.1, fun _ => rfl⟩
    · exact Or.inr hs

theorem Pub_clear (k : Nat) (H : Helper) (hp : Pub k H) (hpi : H.pinv = some k) : Pub k { H with stale := false } :=
  ⟨hp.1, hp.2.1, fun _ => hpi⟩

theorem Evo_clear (k j0 : Nat) (H : Helper) (hp : Pub k H) (hpi : H.pinv = some k) :
    Evo k j0 H { H with stale := false } where
  ok := fun _ => Or.inl (Pub_clear k H hp hpi)
  pub := fun _ => Pub_clear k H hp hpi
  v := fun h => h
  pinv := fun _ h => h
  st := fun _ => Or.inl (Pub_clear k H hp hpi)

def Post (k j0 : Nat) (s : Sh) (r : Sh × Thr × Option Act) : Prop := Ext k j0 s r.1 ∧ G k j0 r.1 ∧ L k j0 r.1 r.2.1

theorem Post.same {k j0 : Nat} {s : Sh} {t' : Thr} (hG : G k j0 s) (hL : L k j0 s t') {a : Option Act} :
    Post k j0 s (s, t', a) := ⟨Ext.refl k j0 s, hG, hL⟩

theorem Post.upd {k j0 : Nat} {s : Sh} {t' : Thr} {h : Nat} {f : Helper → Helper} (hG : G k j0 s)
    (hE : ∀ H, s.heap[h]? = some H → Evo k j0 H (f H))
    (hL : Ext k j0 s (upd s h f) → L k j0 (upd s h f) t') {a : Option Act} :
    Post k j0 s (upd s h f, t', a) := ⟨Ext_upd s h f hE, G_upd s h f hG hE, hL (Ext_upd s h f hE)⟩

theorem L_after {k j0 : Nat} {s' : Sh} (t : Thr) (hk : t.k = k) (hok : t.usedOk = true) (hR : RefPub k s') :
    L k j0 s' { t with pc := afterSetup t } := by
  refine ⟨hk, hok, ?_⟩
  simp only [afterSetup]
  cases hc : t.calcPinv <;> simp [Lpc, hR, Got]

theorem Pub_new (k : Nat) : Pub k ⟨some k, (k : Int), true, none⟩ := ⟨rfl, rfl, fun h => by cases h⟩

theorem publish_post {k j0 : Nat} (s : Sh) (hG : G k j0 s) :
    let s' : Sh := { ref := some s.heap.length, heap := s.heap ++ [⟨some k, (k : Int), true, none⟩] }
    Ext k j0 s s' ∧ G k j0 s' ∧ RefPub k s' := by
  intro s'
  have hnew : s'.heap[s.heap.length]? = some ⟨some k, (k : Int), true, none⟩ := by
    simp [s']
  have hR : RefPub k s' := ⟨s.heap.length, rfl, _, hnew, Pub_new k⟩
  have hold : ∀ (j : Nat) (H : Helper), s.heap[j]? = some H → s'.heap[j]? = some H := by
    intro j H hH
    have hj : j < s.heap.length := (List.getElem?_eq_some_iff.1 hH).1
    simp only [s']
    rw [List.getElem?_append_left hj]; exact hH
  refine ⟨⟨fun j H hH => ⟨H, hold j H hH, Evo.refl k j0 H⟩, Or.inr hR⟩, ⟨fun j H hH => ?_, fun r hr => ?_⟩, hR⟩
  · rcases Nat.lt_or_ge j s.heap.length with hj | hj
    · simp only [s'] at hH
      rw [List.getElem?_append_left hj] at hH
      exact hG.ok j H hH
    · simp only [s'] at hH
      rw [List.getElem?_append_right hj] at hH
      have : H = ⟨some k, (k : Int), true, none⟩ := by
        cases hjj : j - s.heap.length with
        | zero => rw [hjj] at hH; simpa using hH.symm
        | succ n => rw [hjj] at hH; simp at hH
      subst this
      exact Or.inl (Pub_new k)
  · simp only [s'] at hr
    cases hr
    exact ⟨_, hnew⟩

theorem step_post {k j0 : Nat} (s : Sh) (t : Thr) (hG : G k j0 s) (hL : L k j0 s t) : Post k j0 s (step s t) := by
  obtain ⟨k', cp, u, pc, g, ok⟩ := t
  obtain ⟨hk, hok, hpc⟩ := hL
  simp only at hk hok hpc
  subst hk hok
  cases pc <;> simp only [Lpc] at hpc <;> simp only [step]
  case start =>
    cases hr : s.ref <;> exact Post.same hG (by exact ⟨rfl, rfl, by simp [Lpc, hr]⟩)
  case publish =>
    obtain ⟨h1, h2, h3⟩ := publish_post (k := k') (j0 := j0) s hG
    exact ⟨h1, h2, L_after ⟨k', cp, u, .publish, g, true⟩ rfl rfl h3⟩
  case bind =>
    cases hr : s.ref with
    | none => exact absurd hr hpc
    | some h =>
      obtain ⟨H, hH⟩ := hG.ref h hr
      exact Post.same hG (by exact ⟨rfl, rfl, ⟨H, hH, trivial⟩, Or.inr hr⟩)
  case rV0 h =>
    obtain ⟨H, hH, -⟩ := hpc.1
    rw [hH]
    apply Post.same hG
    refine ⟨rfl, rfl, ?_⟩
    dsimp only
    split <;> exact hpc
  case rPo1 h =>
    obtain ⟨H, hH, -⟩ := hpc.1
    rw [hH]
    apply Post.same hG
    refine ⟨rfl, rfl, ?_⟩
    dsimp only
    split
    · exact hpc
    · rename_i hlt
      refine ⟨hpc, ?_⟩
      rcases hG.ok h H hH with hp | hu
      · exact Or.inl ⟨H, hH, hp⟩
      · right
        have h1 := hu.1
        have h2 := hu.2.1
        omega
  case rPo2 h =>
    obtain ⟨hB, hP⟩ := hpc
    obtain ⟨H, hH, -⟩ := hB.1
    rw [hH]
    apply Post.same hG
    refine ⟨rfl, rfl, ?_⟩
    dsimp only
    split
    · rename_i hlt
      refine ⟨hB, ?_⟩
      rcases hG.ok h H hH with hp | hu
      · have h1 := hp.1
        omega
      · have h1 := hu.1
        omega
    · rename_i hlt
      have hp : Pub k' H := by
        rcases hP with hA | hlt2
        · exact hA.get hH
        · rcases hG.ok h H hH with hp | hu
          · exact hp
          · have h1 := hu.1
            omega
      exact ⟨hB, H, hH, hp.2.1, Or.inl hp⟩
  case upV h =>
    exact Post.upd hG (fun H _ => Evo_setV k' j0 H)
      (fun hE => by exact ⟨rfl, rfl, Bound.stable hE hpc, At_upd_self _ _ _ _ (hpc.1.mono fun _ _ => rfl)⟩)
  case upS h =>
    exact Post.upd hG (fun H _ => Evo_setStale k' j0 H)
      (fun hE => by exact ⟨rfl, rfl, Bound.stable hE hpc.1,
        At_upd_self _ _ _ _ (hpc.2.mono fun H hv => ⟨hv, Or.inr rfl⟩)⟩)
  case dnR h =>
    obtain ⟨hB, hlt⟩ := hpc
    obtain ⟨H, hH, -⟩ := hB.1
    rw [hH]
    apply Post.same hG
    refine ⟨rfl, rfl, hB, ?_⟩
    rcases hG.ok h H hH with hp | hu
    · exact ⟨k', hp.2.1, Nat.le_refl _⟩
    · rcases hu.2.2 with hv | hv
      · exact ⟨j0, hv, Nat.le_of_lt hlt⟩
      · exact ⟨k', hv, Nat.le_refl _⟩
  case dnW h v =>
    obtain ⟨hB, j', rfl, hle⟩ := hpc
    simp only [Nat.min_eq_right hle]
    exact Post.upd hG (fun H _ => Evo_setV k' j0 H)
      (fun hE => by exact ⟨rfl, rfl, Bound.stable hE hB, At_upd_self _ _ _ _ (hB.1.mono fun _ _ => rfl)⟩)
  case dnS h =>
    exact Post.upd hG (fun H _ => Evo_setStale k' j0 H)
      (fun hE => by exact ⟨rfl, rfl, Bound.stable hE hpc.1,
        At_upd_self _ _ _ _ (hpc.2.mono fun H hv => ⟨hv, Or.inr rfl⟩)⟩)
  case setPo h =>
    obtain ⟨hB, hA⟩ := hpc
    refine Post.upd hG (fun H hH => Evo_setPo k' j0 H (hA.get hH).1 (hA.get hH).2) (fun hE => ?_)
    refine L_after ⟨k', cp, u, .setPo h, g, true⟩ rfl rfl ?_
    rcases hB.2 with hR | hr
    · exact RefPub.stable hE hR
    · exact ⟨h, hr, At_upd_self _ _ _ _ (hA.mono fun H hp => Pub_setPo k' H hp.1 hp.2)⟩
  case pinvBind =>
    obtain ⟨r, hr, hA⟩ := hpc
    rw [hr]
    exact Post.same hG (by exact ⟨rfl, rfl, ⟨r, hr, hA⟩, hA⟩)
  case pStale h =>
    obtain ⟨hR, H, hH, hp⟩ := hpc
    rw [hH]
    apply Post.same hG
    refine ⟨rfl, rfl, ?_⟩
    dsimp only
    split
    · exact ⟨hR, H, hH, hp⟩
    · rename_i hs
      exact ⟨hR, H, hH, hp, hp.2.2 (by simpa using hs)⟩
  case pNone h =>
    obtain ⟨hR, H, hH, hp, hpi⟩ := hpc
    rw [hH]
    apply Post.same hG
    refine ⟨rfl, rfl, ?_⟩
    dsimp only
    split
    · exact ⟨hR, H, hH, hp⟩
    · exact ⟨hR, H, hH, hp, hpi⟩
  case pReadV h =>
    obtain ⟨hR, H, hH, hp⟩ := hpc
    rw [hH]
    exact Post.same hG (by exact ⟨rfl, rfl, hR, ⟨H, hH, hp⟩, hp.2.1⟩)
  case pWrite h v =>
    obtain ⟨hR, hA, rfl⟩ := hpc
    exact Post.upd hG (fun H _ => Evo_setPinv k' j0 H)
      (fun hE => by exact ⟨rfl, rfl, RefPub.stable hE hR,
        At_upd_self _ _ _ _ (hA.mono fun H hp => ⟨(Evo_setPinv k' j0 H).pub hp, rfl⟩)⟩)
  case pClear h =>
    obtain ⟨hR, hA⟩ := hpc
    exact Post.upd hG (fun H hH => Evo_clear k' j0 H (hA.get hH).1 (hA.get hH).2)
      (fun hE => by exact ⟨rfl, rfl, RefPub.stable hE hR, At.pinvk hE hA⟩)
  case pRet h =>
    obtain ⟨hR, H, hH, hp, hpi⟩ := hpc
    rw [hH]
    exact Post.same hG (by exact ⟨rfl, rfl, hR, fun _ => by rw [hpi]⟩)
  case useBind n =>
    obtain ⟨hR, hg⟩ := hpc
    cases n with
    | zero => exact Post.same hG (by exact ⟨rfl, rfl, hg⟩)
    | succ n =>
      obtain ⟨r, hr, hA⟩ := hR
      simp only [hr]
      exact Post.same hG (by exact ⟨rfl, rfl, ⟨r, hr, hA⟩, hA, hg⟩)
  case useV h n =>
    obtain ⟨hR, ⟨H, hH, hp⟩, hg⟩ := hpc
    rw [hH]
    exact Post.same hG (by exact ⟨rfl, by simp [hp.2.1], hR, hg⟩)
  case done => exact Post.same hG (by exact ⟨rfl, rfl, hpc⟩)


def Inv (k j0 : Nat) (s : Sh) (ts : List Thr) : Prop := G k j0 s ∧ ∀ t ∈ ts, L k j0 s t

theorem Inv_step (k j0 : Nat) (s : Sh) (ts : List Thr) (i : Nat) (t : Thr) (hI : Inv k j0 s ts) (hi : ts[i]? = some t) :
    Inv k j0 (proto.step s t).1 (ts.set i (proto.step s t).2.1) := by
  obtain ⟨hG, hL⟩ := hI
  obtain ⟨hE, hG', hL'⟩ := step_post s t hG (hL t (List.mem_of_getElem? hi))
  refine ⟨hG', fun u hu => ?_⟩
  rcases List.mem_or_eq_of_mem_set hu with hu | hu
  · exact L.stable hE u (hL u hu)
  · subst hu; exact hL'

theorem L.serial {k j0 : Nat} {s : Sh} {t : Thr} (hL : L k j0 s t) : t.serialOutcome := by
  obtain ⟨k', cp, u, pc, g, ok⟩ := t
  obtain ⟨hk, hok, hpc⟩ := hL
  simp only at hk hok hpc
  subst hk hok
  refine ⟨?_, rfl, ?_⟩
  · intro h
    simp only at h
    subst h
    exact hpc
  · intro h
    simp only at h
    subst h
    exact hpc

theorem safe_of_init (k j0 : Nat) (s : Sh) (hG : G k j0 s) (cfg : List (Bool × Nat)) (sched : List Nat) :
    ∀ t ∈ (runSched proto s (cfg.map fun c => thread k c.1 c.2) sched).2, t.serialOutcome := by
  have h0 : Inv k j0 s (cfg.map fun c => thread k c.1 c.2) := by
    refine ⟨hG, fun t ht => ?_⟩
    obtain ⟨c, -, rfl⟩ := List.mem_map.1 ht
    exact ⟨rfl, rfl, trivial⟩
  have := runSched_inv proto (Inv k j0) (Inv_step k j0) s _ h0 sched
  exact fun t ht => (this.2 t ht).serial

theorem G_cold (k : Nat) : G k k cold :=
  ⟨fun h H hH => by simp [cold] at hH, fun r hr => by simp [cold] at hr⟩

theorem G_warm (j k : Nat) (pinvDone : Bool) : G k j (warm j pinvDone) := by
  refine ⟨fun h H hH => ?_, fun r hr => ?_⟩
  · cases h with
    | succ n => simp [warm] at hH
    | zero =>
      simp only [warm, List.getElem?_cons_zero, Option.some.injEq] at hH
      subst hH
      by_cases hjk : j = k
      · subst hjk
        left
        refine ⟨rfl, rfl, ?_⟩
        cases pinvDone <;> simp
      · exact Or.inr ⟨rfl, hjk, Or.inl rfl⟩
  · simp only [warm, Option.some.injEq] at hr
    subst hr
    exact ⟨_, rfl⟩

end PolyInv

/-- first polynomial fit on the object (`_polynomial is None`): every interleaving gives every call its serial outcome -/
theorem poly_cold_safe (k : Nat) (cfg : List (Bool × Nat)) (sched : List Nat) :
    ∀ t ∈ (runSched proto cold (polyThreads k cfg) sched).2, t.serialOutcome :=
  PolyInv.safe_of_init k k cold (PolyInv.G_cold k) cfg sched

/-- helper left by an earlier sequential call with any order j (smaller, equal or larger than k), pseudo-inverse computed or not -/
theorem poly_warm_safe (j k : Nat) (pinvDone : Bool) (cfg : List (Bool × Nat)) (sched : List Nat) :
    ∀ t ∈ (runSched proto (warm j pinvDone) (polyThreads k cfg) sched).2, t.serialOutcome :=
  PolyInv.safe_of_init k j (warm j pinvDone) (PolyInv.G_warm j k pinvDone) cfg sched

/-! ## termination: `prank` bounds the remaining own steps -/

def prank (t : Thr) : Nat :=
  match t.pc with
  | .start => 2*t.uses + 17
  | .publish => 2*t.uses + 9
  | .bind => 2*t.uses + 16
  | .rV0 _ => 2*t.uses + 15
  | .rPo1 _ => 2*t.uses + 14
  | .rPo2 _ => 2*t.uses + 13
  | .upV _ => 2*t.uses + 11
  | .upS _ => 2*t.uses + 10
  | .dnR _ => 2*t.uses + 12
  | .dnW _ _ => 2*t.uses + 11
  | .dnS _ => 2*t.uses + 10
  | .setPo _ => 2*t.uses + 9
  | .pinvBind => 2*t.uses + 8
  | .pStale _ => 2*t.uses + 7
  | .pNone _ => 2*t.uses + 6
  | .pReadV _ => 2*t.uses + 5
  | .pWrite _ _ => 2*t.uses + 4
  | .pClear _ => 2*t.uses + 3
  | .pRet _ => 2*t.uses + 2
  | .useBind n => 2*n + 1
  | .useV _ n => 2*n + 2
  | .done => 0
  | .error => 0

theorem prank_step (s : Sh) (t : Thr) : prank (step s t).2.1 ≤ prank t - 1 ∧ (step s t).2.1.uses = t.uses := by
  obtain ⟨k, cp, u, pc, g, ok⟩ := t
  cases pc
  case useBind n =>
    cases n <;> simp only [step] <;> (try split) <;> simp [prank] <;> omega
  all_goals
    simp only [step, afterSetup]
    repeat' split
    all_goals simp [prank]
    all_goals omega

theorem prank_zero (t : Thr) (h : prank t = 0) : t.pc = .done ∨ t.pc = .error := by
  obtain ⟨k, cp, u, pc, g, ok⟩ := t
  cases pc <;> simp [prank] at h ⊢

theorem poly_term_aux (i : Nat) (sched : List Nat) : ∀ (s : Sh) (ts : List Thr) (t : Thr), ts[i]? = some t →
    prank t ≤ sched.count i → ∃ t', (runSched proto s ts sched).2[i]? = some t' ∧ prank t' = 0 := by
  induction sched with
  | nil => intro s ts t h0 hc; exact ⟨t, by simpa [runSched] using h0, by simpa using hc⟩
  | cons j rest ih =>
    intro s ts t h0 hc
    unfold runSched
    by_cases hji : j = i
    · subst hji
      rw [h0]
      simp only [List.count_cons_self] at hc
      have hr := (prank_step s t).1
      refine ih _ _ (proto.step s t).2.1 ?_ ?_
      · have : j < ts.length := by
          rcases Nat.lt_or_ge j ts.length with h | h
          · exact h
          · simp [List.getElem?_eq_none h] at h0
        simp [List.getElem?_set_self this]
      · show prank (step s t).2.1 ≤ _
        omega
    · have hc' : prank t ≤ rest.count i := by
        rwa [List.count_cons_of_ne hji] at hc
      cases hj : ts[j]? with
      | none => exact ih s ts t h0 hc'
      | some u =>
        refine ih _ _ t ?_ hc'
        rw [List.getElem?_set_ne hji]; exact h0

/-- every call finishes within `20 + 2·uses` of its own steps -/
theorem poly_terminates (s : Sh) (ts : List Thr) (sched : List Nat) (i : Nat) (t : Thr) (h0 : ts[i]? = some t) (hs : t.pc = .start)
    (hc : 20 + 2 * t.uses ≤ sched.count i) :
    ∃ t', (runSched proto s ts sched).2[i]? = some t' ∧ (t'.pc = .done ∨ t'.pc = .error) := by
  have hr : prank t ≤ sched.count i := by
    have : prank t = 2 * t.uses + 17 := by
      obtain ⟨k, cp, u, pc, g, ok⟩ := t
      simp only at hs; subst hs; rfl
    omega
  obtain ⟨t', h1, h2⟩ := poly_term_aux i sched s ts t h0 hr
  exact ⟨t', h1, prank_zero t' h2⟩

end PbVerif.Lemmas
