import PbVerif.Lemmas.Morph
/-! Helper lemmas for C14, 2-D (proofs): the flat (2hr+1)×(2hc+1) morphology of
`scipy.ndimage.grey_erosion / grey_dilation / grey_opening` with a 2-D `size` as used by
`/repo/pybaselines/two_d/morphological.py` (`tophat`, `mor`, `imor`, `_avg_opening`), model
`PbVerif.Morph.{erode2d, dilate2d, opening2d, avgOpening2d, mor2d, imorIter2d}`.

Plan: a rectangular matrix is read through its doubly reflected infinite extension `ext2`; a row pass and a column
pass of the finite model become the window operators `ER/EC/DR/DC` on the infinite grid (`ext2_rowsThenCols`); on
the grid the two erosions commute with each other and so do the two dilations (NOT an erosion with a dilation of the
other axis), every axis is an adjunction (`DR (ER G) ≤ G ≤ ER (DR G)`), hence so is the 2-D pair, and the opening
laws follow; two rectangular matrices with the same extension are equal (`rect_ext`). -/
namespace PbVerif.Lemmas
open PbVerif.Morph

/-! ### window operators on the infinite grid -/
/-- erosion / dilation along a row (second index) and down a column (first index) -/
def ER (h : Nat) (G : Int → Int → Rat) : Int → Int → Rat := fun i j => winMin (G i) h j
def EC (h : Nat) (G : Int → Int → Rat) : Int → Int → Rat := fun i j => winMin (fun i' => G i' j) h i
def DR (h : Nat) (G : Int → Int → Rat) : Int → Int → Rat := fun i j => winMax (G i) h j
def DC (h : Nat) (G : Int → Int → Rat) : Int → Int → Rat := fun i j => winMax (fun i' => G i' j) h i
def LeG (G G' : Int → Int → Rat) : Prop := ∀ i j, G i j ≤ G' i j

theorem LeG_trans {A B C : Int → Int → Rat} (h1 : LeG A B) (h2 : LeG B C) : LeG A C :=
  fun i j => Rat.le_trans (h1 i j) (h2 i j)

theorem ER_mono {G G' : Int → Int → Rat} (H : LeG G G') (h : Nat) : LeG (ER h G) (ER h G') :=
  fun i j => winMin_mono _ _ (fun k => H i k) h j
theorem EC_mono {G G' : Int → Int → Rat} (H : LeG G G') (h : Nat) : LeG (EC h G) (EC h G') :=
  fun i j => winMin_mono _ _ (fun k => H k j) h i
theorem DR_mono {G G' : Int → Int → Rat} (H : LeG G G') (h : Nat) : LeG (DR h G) (DR h G') :=
  fun i j => winMax_mono _ _ (fun k => H i k) h j
theorem DC_mono {G G' : Int → Int → Rat} (H : LeG G G') (h : Nat) : LeG (DC h G) (DC h G') :=
  fun i j => winMax_mono _ _ (fun k => H k j) h i

/-- per-axis adjunction: opening ≤ id ≤ closing -/
theorem DR_ER_le (h : Nat) (G : Int → Int → Rat) : LeG (DR h (ER h G)) G :=
  fun i j => winMax_winMin_le (G i) h j
theorem DC_EC_le (h : Nat) (G : Int → Int → Rat) : LeG (DC h (EC h G)) G :=
  fun i j => winMax_winMin_le (fun i' => G i' j) h i
theorem le_ER_DR (h : Nat) (G : Int → Int → Rat) : LeG G (ER h (DR h G)) :=
  fun i j => le_winMin_winMax (G i) h j
theorem le_EC_DC (h : Nat) (G : Int → Int → Rat) : LeG G (EC h (DC h G)) :=
  fun i j => le_winMin_winMax (fun i' => G i' j) h i

/-- the two erosions commute: both are the minimum over the (2hr+1)×(2hc+1) rectangle -/
theorem ER_EC_comm (hr hc : Nat) (G : Int → Int → Rat) : ER hc (EC hr G) = EC hr (ER hc G) := by
  funext i j
  apply Rat.le_antisymm
  · show winMin (fun j' => winMin (fun i' => G i' j') hr i) hc j ≤ winMin (fun i' => winMin (G i') hc j) hr i
    apply le_winMin; intro a ha1 ha2
    apply le_winMin; intro b hb1 hb2
    exact Rat.le_trans (winMin_le (fun j' => winMin (fun i' => G i' j') hr i) hc j b hb1 hb2)
      (winMin_le (fun i' => G i' (j + b)) hr i a ha1 ha2)
  · show winMin (fun i' => winMin (G i') hc j) hr i ≤ winMin (fun j' => winMin (fun i' => G i' j') hr i) hc j
    apply le_winMin; intro b hb1 hb2
    apply le_winMin; intro a ha1 ha2
    exact Rat.le_trans (winMin_le (fun i' => winMin (G i') hc j) hr i a ha1 ha2)
      (winMin_le (G (i + a)) hc j b hb1 hb2)

/-- the two dilations commute: both are the maximum over the rectangle -/
theorem DR_DC_comm (hr hc : Nat) (G : Int → Int → Rat) : DR hc (DC hr G) = DC hr (DR hc G) := by
  funext i j
  apply Rat.le_antisymm
  · show winMax (fun j' => winMax (fun i' => G i' j') hr i) hc j ≤ winMax (fun i' => winMax (G i') hc j) hr i
    apply winMax_le; intro b hb1 hb2
    apply winMax_le; intro a ha1 ha2
    exact Rat.le_trans (le_winMax (G (i + a)) hc j b hb1 hb2)
      (le_winMax (fun i' => winMax (G i') hc j) hr i a ha1 ha2)
  · show winMax (fun i' => winMax (G i') hc j) hr i ≤ winMax (fun j' => winMax (fun i' => G i' j') hr i) hc j
    apply winMax_le; intro a ha1 ha2
    apply winMax_le; intro b hb1 hb2
    exact Rat.le_trans (le_winMax (fun i' => G i' (j + b)) hr i a ha1 ha2)
      (le_winMax (fun j' => winMax (fun i' => G i' j') hr i) hc j b hb1 hb2)

/-- the 2-D operators in the order the model (and `rowsThenCols`) applies them: rows first, then columns -/
def E2 (hr hc : Nat) (G : Int → Int → Rat) : Int → Int → Rat := EC hr (ER hc G)
def D2 (hr hc : Nat) (G : Int → Int → Rat) : Int → Int → Rat := DC hr (DR hc G)

/-- `E2` is the minimum over the (2hr+1)×(2hc+1) rectangle centred at (i, j): a lower bound of every cell … -/
theorem E2_le (hr hc : Nat) (G : Int → Int → Rat) (i j a b : Int) (ha1 : -(hr:Int) ≤ a) (ha2 : a ≤ hr)
    (hb1 : -(hc:Int) ≤ b) (hb2 : b ≤ hc) : E2 hr hc G i j ≤ G (i + a) (j + b) :=
  Rat.le_trans (winMin_le (fun i' => winMin (G i') hc j) hr i a ha1 ha2) (winMin_le (G (i + a)) hc j b hb1 hb2)
/-- … and the greatest one -/
theorem le_E2 (hr hc : Nat) (G : Int → Int → Rat) (i j : Int) (c : Rat)
    (H : ∀ a b : Int, -(hr:Int) ≤ a → a ≤ hr → -(hc:Int) ≤ b → b ≤ hc → c ≤ G (i + a) (j + b)) :
    c ≤ E2 hr hc G i j := by
  show c ≤ winMin (fun i' => winMin (G i') hc j) hr i
  apply le_winMin; intro a ha1 ha2
  apply le_winMin; intro b hb1 hb2
  exact H a b ha1 ha2 hb1 hb2
/-- `D2` is the maximum over the rectangle -/
theorem le_D2 (hr hc : Nat) (G : Int → Int → Rat) (i j a b : Int) (ha1 : -(hr:Int) ≤ a) (ha2 : a ≤ hr)
    (hb1 : -(hc:Int) ≤ b) (hb2 : b ≤ hc) : G (i + a) (j + b) ≤ D2 hr hc G i j :=
  Rat.le_trans (le_winMax (G (i + a)) hc j b hb1 hb2) (le_winMax (fun i' => winMax (G i') hc j) hr i a ha1 ha2)
theorem D2_le (hr hc : Nat) (G : Int → Int → Rat) (i j : Int) (c : Rat)
    (H : ∀ a b : Int, -(hr:Int) ≤ a → a ≤ hr → -(hc:Int) ≤ b → b ≤ hc → G (i + a) (j + b) ≤ c) :
    D2 hr hc G i j ≤ c := by
  show winMax (fun i' => winMax (G i') hc j) hr i ≤ c
  apply winMax_le; intro a ha1 ha2
  apply winMax_le; intro b hb1 hb2
  exact H a b ha1 ha2 hb1 hb2

theorem E2_mono {G G' : Int → Int → Rat} (H : LeG G G') (hr hc : Nat) : LeG (E2 hr hc G) (E2 hr hc G') :=
  EC_mono (ER_mono H hc) hr
theorem D2_mono {G G' : Int → Int → Rat} (H : LeG G G') (hr hc : Nat) : LeG (D2 hr hc G) (D2 hr hc G') :=
  DC_mono (DR_mono H hc) hr

/-- 2-D opening ≤ id -/
theorem D2_E2_le (hr hc : Nat) (G : Int → Int → Rat) : LeG (D2 hr hc (E2 hr hc G)) G := by
  have e : E2 hr hc G = ER hc (EC hr G) := (ER_EC_comm hr hc G).symm
  unfold D2; rw [e]
  exact LeG_trans (DC_mono (DR_ER_le hc (EC hr G)) hr) (DC_EC_le hr G)

/-- id ≤ 2-D closing -/
theorem le_E2_D2 (hr hc : Nat) (G : Int → Int → Rat) : LeG G (E2 hr hc (D2 hr hc G)) := by
  have e : D2 hr hc G = DR hc (DC hr G) := (DR_DC_comm hr hc G).symm
  unfold E2; rw [e]
  exact LeG_trans (le_EC_DC hr G) (EC_mono (le_ER_DR hc (DC hr G)) hr)

/-- ε δ ε = ε in 2-D -/
theorem E2_D2_E2 (hr hc : Nat) (G : Int → Int → Rat) : E2 hr hc (D2 hr hc (E2 hr hc G)) = E2 hr hc G := by
  funext i j
  apply Rat.le_antisymm
  · exact E2_mono (D2_E2_le hr hc G) hr hc i j
  · exact le_E2_D2 hr hc (E2 hr hc G) i j

theorem ER_shift (h : Nat) (G : Int → Int → Rat) (c : Rat) :
    ER h (fun i j => G i j + c) = fun i j => ER h G i j + c := by
  funext i j; exact winMin_shift (G i) c h j
theorem EC_shift (h : Nat) (G : Int → Int → Rat) (c : Rat) :
    EC h (fun i j => G i j + c) = fun i j => EC h G i j + c := by
  funext i j; exact winMin_shift (fun i' => G i' j) c h i
theorem DR_shift (h : Nat) (G : Int → Int → Rat) (c : Rat) :
    DR h (fun i j => G i j + c) = fun i j => DR h G i j + c := by
  funext i j; exact winMax_shift (G i) c h j
theorem DC_shift (h : Nat) (G : Int → Int → Rat) (c : Rat) :
    DC h (fun i j => G i j + c) = fun i j => DC h G i j + c := by
  funext i j; exact winMax_shift (fun i' => G i' j) c h i
theorem E2_shift (hr hc : Nat) (G : Int → Int → Rat) (c : Rat) :
    E2 hr hc (fun i j => G i j + c) = fun i j => E2 hr hc G i j + c := by
  unfold E2; rw [ER_shift, EC_shift]
theorem D2_shift (hr hc : Nat) (G : Int → Int → Rat) (c : Rat) :
    D2 hr hc (fun i j => G i j + c) = fun i j => D2 hr hc G i j + c := by
  unfold D2; rw [DR_shift, DC_shift]

/-! ### rectangular matrices -/
/-- an M×N matrix as a list of M rows of length N (what a 2-D NumPy array is) -/
def Rect (M N : Nat) (m : List (List Rat)) : Prop := m.length = M ∧ ∀ row ∈ m, row.length = N
/-- entrywise order on matrices of the same shape -/
def LeM (a b : List (List Rat)) : Prop :=
  a.length = b.length ∧ ∀ i, i < a.length → LeL (a.getD i []) (b.getD i [])
/-- `m + c` -/
def shiftM (c : Rat) (m : List (List Rat)) : List (List Rat) := m.map fun row => row.map (· + c)
/-- the doubly reflected extension: `mode='reflect'` on both axes -/
def ext2 (m : List (List Rat)) (i j : Int) : Rat := ext (m.getD (reflIdx m.length i) []) j
/-- the j-th column (as `transpose` reads it) -/
def col (m : List (List Rat)) (j : Nat) : List Rat := m.map fun row => row.getD j 0
/-- apply `fr` to every column -/
def colMap (fr : List Rat → List Rat) (m : List (List Rat)) : List (List Rat) :=
  transpose ((transpose m).map fr)
/-- the operators the passes are built from keep the length -/
def LenPres (f : List Rat → List Rat) : Prop := ∀ l, (f l).length = l.length
/-- `f` keeps the length and acts on the reflected extension as the window operator `W` -/
def Lifts (f : List Rat → List Rat) (W : (Int → Rat) → Int → Rat) : Prop :=
  LenPres f ∧ ∀ l, l ≠ [] → ∀ i, ext (f l) i = W (ext l) i

theorem erode_lifts (h : Nat) : Lifts (erode h) (fun g => winMin g h) :=
  ⟨erode_length h, fun l hl i => ext_erode h l hl i⟩
theorem dilate_lifts (h : Nat) : Lifts (dilate h) (fun g => winMax g h) :=
  ⟨dilate_length h, fun l hl i => ext_dilate h l hl i⟩

theorem rowsThenCols_eq (fr fc : List Rat → List Rat) (m : List (List Rat)) :
    rowsThenCols fr fc m = colMap fr (m.map fc) := rfl

theorem getD_range_map' {α : Type} (n : Nat) (φ : Nat → α) (d : α) (j : Nat) (hj : j < n) :
    ((List.range n).map φ).getD j d = φ j := by
  simp [List.getD_eq_getElem?_getD, hj]

theorem getD_map' {α β : Type} (l : List α) (f : α → β) (da : α) (db : β) (i : Nat) (hi : i < l.length) :
    (l.map f).getD i db = f (l.getD i da) := by
  simp [List.getD_eq_getElem?_getD, hi]

theorem getD_mem {α : Type} (l : List α) (d : α) (i : Nat) (hi : i < l.length) : l.getD i d ∈ l := by
  simp only [List.getD_eq_getElem?_getD, List.getElem?_eq_getElem hi, Option.getD_some]
  exact List.getElem_mem hi

theorem Rect.row {M N : Nat} {m : List (List Rat)} (hm : Rect M N m) (i : Nat) (hi : i < M) :
    (m.getD i []).length = N :=
  hm.2 _ (getD_mem m [] i (hm.1 ▸ hi))

theorem rect_tab (M N : Nat) (φ : Nat → Nat → Rat) :
    Rect M N ((List.range M).map fun i => (List.range N).map fun j => φ i j) := by
  refine ⟨by simp, ?_⟩
  intro row hrow
  simp only [List.mem_map] at hrow
  obtain ⟨i, _, rfl⟩ := hrow
  simp

/-- a rectangular matrix is the table of its entries -/
theorem rect_eq_tab {M N : Nat} {m : List (List Rat)} (hm : Rect M N m) :
    m = (List.range M).map fun i => (List.range N).map fun j => (m.getD i []).getD j 0 := by
  apply List.ext_getElem
  · simp [hm.1]
  · intro i h1 h2
    have hi : i < M := hm.1 ▸ h1
    have hrow : (m.getD i []).length = N := hm.row i hi
    have e : m.getD i [] = m[i] := by
      simp [List.getD_eq_getElem?_getD, h1]
    rw [e] at hrow
    apply List.ext_getElem
    · simp [hrow]
    · intro j g1 g2
      simp [List.getD_eq_getElem?_getD, h1, g1]

/-- two matrices of the same shape with the same entries are equal -/
theorem rect_ext_ent {M N : Nat} {a b : List (List Rat)} (ha : Rect M N a) (hb : Rect M N b)
    (H : ∀ i j, i < M → j < N → (a.getD i []).getD j 0 = (b.getD i []).getD j 0) : a = b := by
  rw [rect_eq_tab ha, rect_eq_tab hb]
  apply List.map_congr_left; intro i hi
  apply List.map_congr_left; intro j hj
  exact H i j (List.mem_range.mp hi) (List.mem_range.mp hj)

theorem ext2_of_lt {M N : Nat} {m : List (List Rat)} (hm : Rect M N m) (i j : Nat) (hi : i < M) (hj : j < N) :
    ext2 m (i : Int) (j : Int) = (m.getD i []).getD j 0 := by
  unfold ext2
  rw [hm.1, reflIdx_of_lt M i hi]
  exact ext_of_lt _ j (by rw [hm.row i hi]; exact hj)

/-- the extension in terms of the entries -/
theorem ext2_eq {M N : Nat} {m : List (List Rat)} (hm : Rect M N m) (hM : 0 < M) (i j : Int) :
    ext2 m i j = (m.getD (reflIdx M i) []).getD (reflIdx N j) 0 := by
  unfold ext2 ext
  rw [hm.1, hm.row _ (reflIdx_lt M hM i)]

/-- two matrices of the same shape with the same extension are equal -/
theorem rect_ext {M N : Nat} {a b : List (List Rat)} (ha : Rect M N a) (hb : Rect M N b)
    (H : ext2 a = ext2 b) : a = b := by
  apply rect_ext_ent ha hb
  intro i j hi hj
  rw [← ext2_of_lt ha i j hi hj, ← ext2_of_lt hb i j hi hj, H]

theorem LeM_of_LeG {M N : Nat} {a b : List (List Rat)} (ha : Rect M N a) (hb : Rect M N b)
    (H : LeG (ext2 a) (ext2 b)) : LeM a b := by
  refine ⟨ha.1.trans hb.1.symm, ?_⟩
  intro i hi
  have hi' : i < M := ha.1 ▸ hi
  refine ⟨(ha.row i hi').trans (hb.row i hi').symm, ?_⟩
  intro j hj
  have hj' : j < N := (ha.row i hi') ▸ hj
  rw [← ext2_of_lt ha i j hi' hj', ← ext2_of_lt hb i j hi' hj']
  exact H _ _

theorem LeM_refl (a : List (List Rat)) : LeM a a := ⟨rfl, fun _ _ => LeL_refl _⟩

theorem LeM_trans {a b c : List (List Rat)} (h1 : LeM a b) (h2 : LeM b c) : LeM a c :=
  ⟨h1.1.trans h2.1, fun i hi => LeL_trans (h1.2 i hi) (h2.2 i (h1.1 ▸ hi))⟩

/-! ### transpose, row pass, column pass -/
theorem col_length (m : List (List Rat)) (j : Nat) : (col m j).length = m.length := by simp [col]

theorem transpose_eq {M N : Nat} {m : List (List Rat)} (hm : Rect M N m) (hM : 0 < M) :
    transpose m = (List.range N).map (col m) := by
  obtain ⟨hl, hr⟩ := hm
  cases m with
  | nil => simp at hl; omega
  | cons r rest =>
    have e : r.length = N := hr r (by simp)
    show (List.range r.length).map (fun j => (r :: rest).map fun row => row.getD j 0) = _
    rw [e]; rfl

theorem rect_cols {M : Nat} (N : Nat) {m : List (List Rat)} (hl : m.length = M) (f : List Rat → List Rat)
    (hf : LenPres f) : Rect N M ((List.range N).map fun j => f (col m j)) := by
  refine ⟨by simp, ?_⟩
  intro row hrow
  simp only [List.mem_map] at hrow
  obtain ⟨j, _, rfl⟩ := hrow
  rw [hf, col_length, hl]

theorem rect_transpose {M N : Nat} {m : List (List Rat)} (hm : Rect M N m) (hM : 0 < M) :
    Rect N M (transpose m) := by
  rw [transpose_eq hm hM]
  exact rect_cols N hm.1 id (fun _ => rfl)

theorem transpose_transpose {M N : Nat} {m : List (List Rat)} (hm : Rect M N m) (hM : 0 < M) (hN : 0 < N) :
    transpose (transpose m) = m := by
  have hT := rect_transpose hm hM
  have hTT := rect_transpose hT hN
  apply rect_ext_ent hTT hm
  intro i j hi hj
  rw [transpose_eq hT hN, getD_range_map' M _ [] i hi]
  unfold col
  rw [getD_map' _ _ [] 0 j (by rw [hT.1]; exact hj), transpose_eq hm hM, getD_range_map' N _ [] j hj]
  show (m.map fun row => row.getD j 0).getD i 0 = _
  rw [getD_map' _ _ [] 0 i (by rw [hm.1]; exact hi)]

theorem colMap_eq {M N : Nat} {m : List (List Rat)} (fr : List Rat → List Rat) (hf : LenPres fr)
    (hm : Rect M N m) (hM : 0 < M) (hN : 0 < N) :
    colMap fr m = (List.range M).map fun i => (List.range N).map fun j => (fr (col m j)).getD i 0 := by
  unfold colMap
  rw [transpose_eq hm hM, List.map_map]
  have hR : Rect N M ((List.range N).map (fr ∘ col m)) := rect_cols N hm.1 fr hf
  rw [transpose_eq hR hN]
  apply List.map_congr_left; intro i _
  unfold col
  rw [List.map_map]
  rfl

theorem rect_mapRows {M N : Nat} {m : List (List Rat)} (fc : List Rat → List Rat) (hf : LenPres fc)
    (hm : Rect M N m) : Rect M N (m.map fc) := by
  refine ⟨by simp [hm.1], ?_⟩
  intro row hrow
  simp only [List.mem_map] at hrow
  obtain ⟨r, hr, rfl⟩ := hrow
  rw [hf]; exact hm.2 r hr

theorem rect_colMap {M N : Nat} {m : List (List Rat)} (fr : List Rat → List Rat) (hf : LenPres fr)
    (hm : Rect M N m) (hM : 0 < M) (hN : 0 < N) : Rect M N (colMap fr m) := by
  rw [colMap_eq fr hf hm hM hN]; exact rect_tab M N _

theorem rect_rowsThenCols {M N : Nat} {m : List (List Rat)} (fr fc : List Rat → List Rat) (hfr : LenPres fr)
    (hfc : LenPres fc) (hm : Rect M N m) (hM : 0 < M) (hN : 0 < N) : Rect M N (rowsThenCols fr fc m) :=
  rect_colMap fr hfr (rect_mapRows fc hfc hm) hM hN

theorem ne_nil_of_length {l : List Rat} {N : Nat} (h : l.length = N) (hN : 0 < N) : l ≠ [] := by
  intro e; rw [e] at h; simp at h; omega

/-- a row pass acts on the extension row by row -/
theorem ext2_mapRows {M N : Nat} {m : List (List Rat)} (fc : List Rat → List Rat) (W : (Int → Rat) → Int → Rat)
    (hf : Lifts fc W) (hm : Rect M N m) (hM : 0 < M) (hN : 0 < N) :
    ext2 (m.map fc) = fun i j => W (ext2 m i) j := by
  funext i j
  have hi := reflIdx_lt M hM i
  unfold ext2
  rw [List.length_map, hm.1, getD_map' m fc [] [] _ (by rw [hm.1]; exact hi)]
  exact hf.2 _ (ne_nil_of_length (hm.row _ hi) hN) j

/-- the extension of a column is the extension of the matrix along the first index -/
theorem ext_col {M N : Nat} {m : List (List Rat)} (hm : Rect M N m) (hM : 0 < M) (j : Int) :
    ext (col m (reflIdx N j)) = fun i => ext2 m i j := by
  funext i
  have hi := reflIdx_lt M hM i
  rw [ext2_eq hm hM]
  unfold ext
  rw [col_length, hm.1]
  unfold col
  rw [getD_map' m _ [] 0 _ (by rw [hm.1]; exact hi)]

/-- a column pass acts on the extension column by column -/
theorem ext2_colMap {M N : Nat} {m : List (List Rat)} (fr : List Rat → List Rat) (W : (Int → Rat) → Int → Rat)
    (hf : Lifts fr W) (hm : Rect M N m) (hM : 0 < M) (hN : 0 < N) :
    ext2 (colMap fr m) = fun i j => W (fun i' => ext2 m i' j) i := by
  funext i j
  have hi := reflIdx_lt M hM i
  have hj := reflIdx_lt N hN j
  have hR := rect_colMap fr hf.1 hm hM hN
  rw [ext2_eq hR hM, colMap_eq fr hf.1 hm hM hN, getD_range_map' M _ [] _ hi, getD_range_map' N _ 0 _ hj]
  have hcl : (col m (reflIdx N j)).length = M := by rw [col_length, hm.1]
  have e : (fr (col m (reflIdx N j))).getD (reflIdx M i) 0 = ext (fr (col m (reflIdx N j))) i := by
    unfold ext; rw [hf.1, hcl]
  rw [e, hf.2 _ (ne_nil_of_length hcl hM) i, ext_col hm hM j]

theorem ext2_rowsThenCols {M N : Nat} {m : List (List Rat)} (fr fc : List Rat → List Rat)
    (Wr Wc : (Int → Rat) → Int → Rat) (hfr : Lifts fr Wr) (hfc : Lifts fc Wc)
    (hm : Rect M N m) (hM : 0 < M) (hN : 0 < N) :
    ext2 (rowsThenCols fr fc m) = fun i j => Wr (fun i' => Wc (ext2 m i') j) i := by
  rw [rowsThenCols_eq, ext2_colMap fr Wr hfr (rect_mapRows fc hfc.1 hm) hM hN, ext2_mapRows fc Wc hfc hm hM hN]

/-! ### the 2-D operators of the model -/
section ops
variable {M N : Nat} {m : List (List Rat)}

theorem rect_erode2d (hr hc : Nat) (hm : Rect M N m) (hM : 0 < M) (hN : 0 < N) : Rect M N (erode2d hr hc m) :=
  rect_rowsThenCols _ _ (erode_length hr) (erode_length hc) hm hM hN
theorem rect_dilate2d (hr hc : Nat) (hm : Rect M N m) (hM : 0 < M) (hN : 0 < N) : Rect M N (dilate2d hr hc m) :=
  rect_rowsThenCols _ _ (dilate_length hr) (dilate_length hc) hm hM hN
theorem rect_opening2d (hr hc : Nat) (hm : Rect M N m) (hM : 0 < M) (hN : 0 < N) : Rect M N (opening2d hr hc m) :=
  rect_dilate2d hr hc (rect_erode2d hr hc hm hM hN) hM hN

theorem ext2_erode2d (hr hc : Nat) (hm : Rect M N m) (hM : 0 < M) (hN : 0 < N) :
    ext2 (erode2d hr hc m) = E2 hr hc (ext2 m) := by
  have := ext2_rowsThenCols (erode hr) (erode hc) (fun g => winMin g hr) (fun g => winMin g hc)
    (erode_lifts hr) (erode_lifts hc) hm hM hN
  unfold erode2d; rw [this]; rfl
theorem ext2_dilate2d (hr hc : Nat) (hm : Rect M N m) (hM : 0 < M) (hN : 0 < N) :
    ext2 (dilate2d hr hc m) = D2 hr hc (ext2 m) := by
  have := ext2_rowsThenCols (dilate hr) (dilate hc) (fun g => winMax g hr) (fun g => winMax g hc)
    (dilate_lifts hr) (dilate_lifts hc) hm hM hN
  unfold dilate2d; rw [this]; rfl
theorem ext2_opening2d (hr hc : Nat) (hm : Rect M N m) (hM : 0 < M) (hN : 0 < N) :
    ext2 (opening2d hr hc m) = D2 hr hc (E2 hr hc (ext2 m)) := by
  unfold opening2d
  rw [ext2_dilate2d hr hc (rect_erode2d hr hc hm hM hN) hM hN, ext2_erode2d hr hc hm hM hN]

/-- 2-D erosion and dilation are monotone -/
theorem erode2d_mono (hr hc : Nat) {a b : List (List Rat)} (ha : Rect M N a) (hb : Rect M N b) (hM : 0 < M)
    (hN : 0 < N) (H : LeG (ext2 a) (ext2 b)) : LeG (ext2 (erode2d hr hc a)) (ext2 (erode2d hr hc b)) := by
  rw [ext2_erode2d hr hc ha hM hN, ext2_erode2d hr hc hb hM hN]; exact E2_mono H hr hc

theorem opening2d_le (hr hc : Nat) (hm : Rect M N m) (hM : 0 < M) (hN : 0 < N) : LeM (opening2d hr hc m) m := by
  apply LeM_of_LeG (rect_opening2d hr hc hm hM hN) hm
  rw [ext2_opening2d hr hc hm hM hN]
  exact D2_E2_le hr hc _

theorem opening2d_idem (hr hc : Nat) (hm : Rect M N m) (hM : 0 < M) (hN : 0 < N) :
    opening2d hr hc (opening2d hr hc m) = opening2d hr hc m := by
  have hO := rect_opening2d hr hc hm hM hN
  apply rect_ext (rect_opening2d hr hc hO hM hN) hO
  rw [ext2_opening2d hr hc hO hM hN, ext2_opening2d hr hc hm hM hN, E2_D2_E2]

/-! ### shifts -/
theorem rect_shiftM (c : Rat) (hm : Rect M N m) : Rect M N (shiftM c m) :=
  rect_mapRows _ (fun _ => List.length_map _) hm

theorem ext2_shiftM (c : Rat) (hm : Rect M N m) (hM : 0 < M) (hN : 0 < N) :
    ext2 (shiftM c m) = fun i j => ext2 m i j + c := by
  funext i j
  have hi := reflIdx_lt M hM i
  unfold ext2 shiftM
  rw [List.length_map, hm.1, getD_map' m _ [] [] _ (by rw [hm.1]; exact hi),
    ext_shift _ (ne_nil_of_length (hm.row _ hi) hN) c]

theorem erode2d_shift (hr hc : Nat) (c : Rat) (hm : Rect M N m) (hM : 0 < M) (hN : 0 < N) :
    erode2d hr hc (shiftM c m) = shiftM c (erode2d hr hc m) := by
  have hE := rect_erode2d hr hc hm hM hN
  apply rect_ext (rect_erode2d hr hc (rect_shiftM c hm) hM hN) (rect_shiftM c hE)
  rw [ext2_erode2d hr hc (rect_shiftM c hm) hM hN, ext2_shiftM c hm hM hN, E2_shift, ext2_shiftM c hE hM hN,
    ext2_erode2d hr hc hm hM hN]

theorem dilate2d_shift (hr hc : Nat) (c : Rat) (hm : Rect M N m) (hM : 0 < M) (hN : 0 < N) :
    dilate2d hr hc (shiftM c m) = shiftM c (dilate2d hr hc m) := by
  have hD := rect_dilate2d hr hc hm hM hN
  apply rect_ext (rect_dilate2d hr hc (rect_shiftM c hm) hM hN) (rect_shiftM c hD)
  rw [ext2_dilate2d hr hc (rect_shiftM c hm) hM hN, ext2_shiftM c hm hM hN, D2_shift, ext2_shiftM c hD hM hN,
    ext2_dilate2d hr hc hm hM hN]

theorem opening2d_shift (hr hc : Nat) (c : Rat) (hm : Rect M N m) (hM : 0 < M) (hN : 0 < N) :
    opening2d hr hc (shiftM c m) = shiftM c (opening2d hr hc m) := by
  unfold opening2d
  rw [erode2d_shift hr hc c hm hM hN, dilate2d_shift hr hc c (rect_erode2d hr hc hm hM hN) hM hN]

/-! ### zip2, mor, imor -/
theorem rect_zip2 (f : Rat → Rat → Rat) {a b : List (List Rat)} (ha : Rect M N a) (hb : Rect M N b) :
    Rect M N (zip2 f a b) := by
  unfold zip2
  refine ⟨by simp [ha.1, hb.1], ?_⟩
  intro row hrow
  obtain ⟨i, hi, rfl⟩ := List.mem_iff_getElem.mp hrow
  simp only [List.length_zipWith] at hi
  rw [List.getElem_zipWith, List.length_zipWith, ha.2 _ (List.getElem_mem _), hb.2 _ (List.getElem_mem _)]
  omega

theorem zip2_shift (f : Rat → Rat → Rat) (c : Rat) (hf : ∀ x y, f (x + c) (y + c) = f x y + c)
    (a b : List (List Rat)) : zip2 f (shiftM c a) (shiftM c b) = shiftM c (zip2 f a b) := by
  unfold zip2 shiftM
  rw [List.zipWith_map, List.map_zipWith]
  congr 1
  funext r s
  rw [List.zipWith_map, List.map_zipWith]
  congr 1
  funext x y
  exact hf x y

theorem zip2_min_le_left {a b : List (List Rat)} (ha : Rect M N a) (hb : Rect M N b) : LeM (zip2 min a b) a := by
  have hz := rect_zip2 min ha hb
  refine ⟨hz.1.trans ha.1.symm, ?_⟩
  intro i hi
  have hi' : i < M := hz.1 ▸ hi
  have hia : i < a.length := by rw [ha.1]; exact hi'
  have hib : i < b.length := by rw [hb.1]; exact hi'
  have e : (zip2 min a b).getD i [] = List.zipWith min (a.getD i []) (b.getD i []) := by
    unfold zip2
    have hiz : i < (List.zipWith (List.zipWith min) a b).length := by
      rw [List.length_zipWith]; omega
    simp only [List.getD_eq_getElem?_getD, List.getElem?_eq_getElem hiz, List.getElem?_eq_getElem hia,
      List.getElem?_eq_getElem hib, Option.getD_some, List.getElem_zipWith]
  rw [e]
  exact zipWith_min_LeL_left _ _ ((ha.row i hi').trans (hb.row i hi').symm)

theorem rect_avgOpening2d (hr hc : Nat) (hm : Rect M N m) (hM : 0 < M) (hN : 0 < N) :
    Rect M N (avgOpening2d hr hc m) := by
  have hO := rect_opening2d hr hc hm hM hN
  exact rect_zip2 _ (rect_dilate2d hr hc hO hM hN) (rect_erode2d hr hc hO hM hN)

theorem rect_mor2d (hr hc : Nat) (hm : Rect M N m) (hM : 0 < M) (hN : 0 < N) : Rect M N (mor2d hr hc m) :=
  rect_zip2 _ (rect_opening2d hr hc hm hM hN) (rect_avgOpening2d hr hc hm hM hN)

theorem rect_imorIter2d (hr hc : Nat) (hm : Rect M N m) (hM : 0 < M) (hN : 0 < N) (k : Nat) :
    Rect M N (imorIter2d hr hc m k) := by
  induction k with
  | zero => exact hm
  | succ k ih => exact rect_zip2 _ hm (rect_avgOpening2d hr hc ih hM hN)

theorem avgOpening2d_shift (hr hc : Nat) (c : Rat) (hm : Rect M N m) (hM : 0 < M) (hN : 0 < N) :
    avgOpening2d hr hc (shiftM c m) = shiftM c (avgOpening2d hr hc m) := by
  have hO := rect_opening2d hr hc hm hM hN
  show zip2 _ (dilate2d hr hc (opening2d hr hc (shiftM c m))) (erode2d hr hc (opening2d hr hc (shiftM c m))) = _
  rw [opening2d_shift hr hc c hm hM hN, dilate2d_shift hr hc c hO hM hN, erode2d_shift hr hc c hO hM hN,
    zip2_shift _ c (by intro x y; grind)]
  rfl

theorem mor2d_shift (hr hc : Nat) (c : Rat) (hm : Rect M N m) (hM : 0 < M) (hN : 0 < N) :
    mor2d hr hc (shiftM c m) = shiftM c (mor2d hr hc m) := by
  unfold mor2d
  rw [opening2d_shift hr hc c hm hM hN, avgOpening2d_shift hr hc c hm hM hN,
    zip2_shift min c (by intro x y; grind)]

theorem mor2d_le (hr hc : Nat) (hm : Rect M N m) (hM : 0 < M) (hN : 0 < N) : LeM (mor2d hr hc m) m :=
  LeM_trans (zip2_min_le_left (rect_opening2d hr hc hm hM hN) (rect_avgOpening2d hr hc hm hM hN))
    (opening2d_le hr hc hm hM hN)

theorem imor2d_le (hr hc : Nat) (hm : Rect M N m) (hM : 0 < M) (hN : 0 < N) (k : Nat) :
    LeM (imorIter2d hr hc m k) m := by
  cases k with
  | zero => exact LeM_refl m
  | succ k =>
    exact zip2_min_le_left hm (rect_avgOpening2d hr hc (rect_imorIter2d hr hc hm hM hN k) hM hN)

end ops

end PbVerif.Lemmas
