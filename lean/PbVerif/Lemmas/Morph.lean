import PbVerif.Model.Morph
/-! Helper lemmas for C14 (proofs). -/
namespace PbVerif.Lemmas
open PbVerif.Morph

/-- pointwise order on finite signals of the same length -/
def LeL (a b : List Rat) : Prop := a.length = b.length ∧ ∀ i, i < a.length → a.getD i 0 ≤ b.getD i 0

theorem erode_length (h : Nat) (f : List Rat) : (erode h f).length = f.length := by sorry
theorem dilate_length (h : Nat) (f : List Rat) : (dilate h f).length = f.length := by sorry
theorem opening_length (h : Nat) (f : List Rat) : (opening h f).length = f.length := by sorry

/-- reflection commutes with symmetric-window erosion/dilation: the reflected extension of the
eroded finite signal is the erosion of the reflected extension -/
theorem ext_erode (h : Nat) (f : List Rat) (hf : f ≠ []) (i : Int) : ext (erode h f) i = winMin (ext f) h i := by sorry
theorem ext_dilate (h : Nat) (f : List Rat) (hf : f ≠ []) (i : Int) : ext (dilate h f) i = winMax (ext f) h i := by sorry

theorem opening_le (h : Nat) (f : List Rat) : LeL (opening h f) f := by sorry
theorem opening_idem (h : Nat) (f : List Rat) : opening h (opening h f) = opening h f := by sorry
theorem opening_shift (h : Nat) (f : List Rat) (c : Rat) :
    opening h (f.map (· + c)) = (opening h f).map (· + c) := by sorry
theorem mor_le (h : Nat) (f : List Rat) : LeL (mor h f) f := by sorry
theorem mor_shift (h : Nat) (f : List Rat) (c : Rat) : mor h (f.map (· + c)) = (mor h f).map (· + c) := by sorry
theorem imor_le (h : Nat) (y : List Rat) (k : Nat) : LeL (imorIter h y k) y := by sorry

theorem snipPass_le (order hwL hwR : Nat) (b : List Rat) (i : Nat) : LeL (snipPass order hwL hwR b i) b := by sorry
theorem snipCore_length (order hwL hwR : Nat) (dec : Bool) (padded : List Rat) :
    (snipCore order hwL hwR dec padded).length = padded.length - 2 * max hwL hwR := by sorry
theorem snipCore_le (order hwL hwR : Nat) (dec : Bool) (pl data pr : List Rat)
    (hl : pl.length = max hwL hwR) (hr : pr.length = max hwL hwR) :
    LeL (snipCore order hwL hwR dec (pl ++ data ++ pr)) data := by sorry
theorem snipCore_shift (order hwL hwR : Nat) (dec : Bool) (padded : List Rat) (c : Rat) :
    snipCore order hwL hwR dec (padded.map (· + c)) = (snipCore order hwL hwR dec padded).map (· + c) := by sorry

end PbVerif.Lemmas
