import PbVerif.Model.Morph
/-! Helper lemmas for C14 (proofs). -/
namespace PbVerif.Lemmas
open PbVerif.Morph

/-- pointwise order on finite signals of the same length -/
def LeL (a b : List Rat) : Prop := a.length = b.length ∧ ∀ i, i < a.length → a.getD i 0 ≤ b.getD i 0

theorem erode_length (h : Nat) (f : List Rat) : (erode h f).length = f.length := by simp [erode]
theorem dilate_length (h : Nat) (f : List Rat) : (dilate h f).length = f.length := by simp [dilate]
theorem opening_length (h : Nat) (f : List Rat) : (opening h f).length = f.length := by
  simp [opening, erode_length, dilate_length]

/-! ### fold lemmas -/
theorem foldl_min_le_init (l : List Nat) (a : Rat) (b : Nat → Rat) :
    l.foldl (fun acc k => min acc (b k)) a ≤ a := by
  induction l generalizing a with
  | nil => simp
  | cons x xs ih => simp only [List.foldl]; have := ih (min a (b x)); grind

theorem foldl_min_le_mem (l : List Nat) (a : Rat) (b : Nat → Rat) (k : Nat) (hk : k ∈ l) :
    l.foldl (fun acc k => min acc (b k)) a ≤ b k := by
  induction l generalizing a with
  | nil => cases hk
  | cons x xs ih =>
    simp only [List.foldl]
    rcases List.mem_cons.mp hk with rfl | h
    · have := foldl_min_le_init xs (min a (b k)) b; grind
    · exact ih _ h

theorem le_foldl_min (l : List Nat) (a : Rat) (b : Nat → Rat) (c : Rat) (ha : c ≤ a)
    (hb : ∀ k ∈ l, c ≤ b k) : c ≤ l.foldl (fun acc k => min acc (b k)) a := by
  induction l generalizing a with
  | nil => simpa using ha
  | cons x xs ih =>
    simp only [List.foldl]
    apply ih
    · have := hb x (by simp); grind
    · intro k hk; exact hb k (by simp [hk])

theorem init_le_foldl_max (l : List Nat) (a : Rat) (b : Nat → Rat) :
    a ≤ l.foldl (fun acc k => max acc (b k)) a := by
  induction l generalizing a with
  | nil => simp
  | cons x xs ih => simp only [List.foldl]; have := ih (max a (b x)); grind

theorem mem_le_foldl_max (l : List Nat) (a : Rat) (b : Nat → Rat) (k : Nat) (hk : k ∈ l) :
    b k ≤ l.foldl (fun acc k => max acc (b k)) a := by
  induction l generalizing a with
  | nil => cases hk
  | cons x xs ih =>
    simp only [List.foldl]
    rcases List.mem_cons.mp hk with rfl | h
    · have := init_le_foldl_max xs (max a (b k)) b; grind
    · exact ih _ h

theorem foldl_max_le (l : List Nat) (a : Rat) (b : Nat → Rat) (c : Rat) (ha : a ≤ c)
    (hb : ∀ k ∈ l, b k ≤ c) : l.foldl (fun acc k => max acc (b k)) a ≤ c := by
  induction l generalizing a with
  | nil => simpa using ha
  | cons x xs ih =>
    simp only [List.foldl]
    apply ih
    · have := hb x (by simp); grind
    · intro k hk; exact hb k (by simp [hk])

theorem winMin_le (g : Int → Rat) (h : Nat) (i j : Int) (h1 : -(h:Int) ≤ j) (h2 : j ≤ h) :
    winMin g h i ≤ g (i + j) := by
  unfold winMin winFold
  by_cases hj : j = -(h:Int)
  · have := foldl_min_le_init (List.range (2*h)) (g (i - h)) (fun k => g (i - (h:Int) + 1 + (k:Int)))
    have e : i + j = i - (h:Int) := by omega
    rw [e]; exact this
  · have hk : (j + h - 1).toNat ∈ List.range (2 * h) := by
      simp only [List.mem_range]; omega
    have := foldl_min_le_mem (List.range (2*h)) (g (i - h)) (fun k => g (i - (h:Int) + 1 + (k:Int))) _ hk
    have e : i - (h:Int) + 1 + ((j + h - 1).toNat : Int) = i + j := by omega
    simp only [e] at this; exact this

theorem le_winMin (g : Int → Rat) (h : Nat) (i : Int) (c : Rat)
    (H : ∀ j : Int, -(h:Int) ≤ j → j ≤ h → c ≤ g (i + j)) : c ≤ winMin g h i := by
  unfold winMin winFold
  apply le_foldl_min
  · have := H (-(h:Int)) (by omega) (by omega)
    have e : i + -(h:Int) = i - (h:Int) := by omega
    rw [e] at this; exact this
  · intro k hk
    simp only [List.mem_range] at hk
    have := H (-(h:Int) + 1 + k) (by omega) (by omega)
    have e : i + (-(h:Int) + 1 + (k:Int)) = i - (h:Int) + 1 + k := by omega
    rw [e] at this; exact this

theorem le_winMax (g : Int → Rat) (h : Nat) (i j : Int) (h1 : -(h:Int) ≤ j) (h2 : j ≤ h) :
    g (i + j) ≤ winMax g h i := by
  unfold winMax winFold
  by_cases hj : j = -(h:Int)
  · have := init_le_foldl_max (List.range (2*h)) (g (i - h)) (fun k => g (i - (h:Int) + 1 + (k:Int)))
    have e : i + j = i - (h:Int) := by omega
    rw [e]; exact this
  · have hk : (j + h - 1).toNat ∈ List.range (2 * h) := by
      simp only [List.mem_range]; omega
    have := mem_le_foldl_max (List.range (2*h)) (g (i - h)) (fun k => g (i - (h:Int) + 1 + (k:Int))) _ hk
    have e : i - (h:Int) + 1 + ((j + h - 1).toNat : Int) = i + j := by omega
    simp only [e] at this; exact this

theorem winMax_le (g : Int → Rat) (h : Nat) (i : Int) (c : Rat)
    (H : ∀ j : Int, -(h:Int) ≤ j → j ≤ h → g (i + j) ≤ c) : winMax g h i ≤ c := by
  unfold winMax winFold
  apply foldl_max_le
  · have := H (-(h:Int)) (by omega) (by omega)
    have e : i + -(h:Int) = i - (h:Int) := by omega
    rw [e] at this; exact this
  · intro k hk
    simp only [List.mem_range] at hk
    have := H (-(h:Int) + 1 + k) (by omega) (by omega)
    have e : i + (-(h:Int) + 1 + (k:Int)) = i - (h:Int) + 1 + k := by omega
    rw [e] at this; exact this

/-! ### transport of windows -/
theorem winMin_translate (g : Int → Rat) (p : Int) (hp : ∀ k, g (k + p) = g k) (h : Nat) (i : Int) :
    winMin g h (i + p) = winMin g h i := by
  apply Rat.le_antisymm
  · apply le_winMin; intro j h1 h2
    have := winMin_le g h (i + p) j h1 h2
    have e : i + p + j = (i + j) + p := by omega
    rw [e, hp] at this; exact this
  · apply le_winMin; intro j h1 h2
    have := winMin_le g h i j h1 h2
    have e : i + p + j = (i + j) + p := by omega
    rw [e, hp]; exact this

theorem winMin_mirror (g : Int → Rat) (hp : ∀ k, g (-1 - k) = g k) (h : Nat) (i : Int) :
    winMin g h (-1 - i) = winMin g h i := by
  apply Rat.le_antisymm
  · apply le_winMin; intro j h1 h2
    have := winMin_le g h (-1 - i) (-j) (by omega) (by omega)
    have e : -1 - i + -j = -1 - (i + j) := by omega
    rw [e, hp] at this; exact this
  · apply le_winMin; intro j h1 h2
    have := winMin_le g h i (-j) (by omega) (by omega)
    have e : -1 - i + j = -1 - (i + -j) := by omega
    rw [e, hp]; exact this

theorem winMax_translate (g : Int → Rat) (p : Int) (hp : ∀ k, g (k + p) = g k) (h : Nat) (i : Int) :
    winMax g h (i + p) = winMax g h i := by
  apply Rat.le_antisymm
  · apply winMax_le; intro j h1 h2
    have := le_winMax g h i j h1 h2
    have e : i + p + j = (i + j) + p := by omega
    rw [e, hp]; exact this
  · apply winMax_le; intro j h1 h2
    have := le_winMax g h (i + p) j h1 h2
    have e : i + p + j = (i + j) + p := by omega
    rw [e, hp] at this; exact this

theorem winMax_mirror (g : Int → Rat) (hp : ∀ k, g (-1 - k) = g k) (h : Nat) (i : Int) :
    winMax g h (-1 - i) = winMax g h i := by
  apply Rat.le_antisymm
  · apply winMax_le; intro j h1 h2
    have := le_winMax g h i (-j) (by omega) (by omega)
    have e : -1 - i + j = -1 - (i + -j) := by omega
    rw [e, hp]; exact this
  · apply winMax_le; intro j h1 h2
    have := le_winMax g h (-1 - i) (-j) (by omega) (by omega)
    have e : -1 - i + -j = -1 - (i + j) := by omega
    rw [e, hp] at this; exact this

/-! ### reflection index -/
theorem reflIdx_lt (n : Nat) (hn : 0 < n) (i : Int) : reflIdx n i < n := by
  unfold reflIdx
  have h0 : (0:Int) ≤ i % (2 * (n:Int)) := Int.emod_nonneg _ (by omega)
  have h1 : i % (2 * (n:Int)) < 2 * (n:Int) := Int.emod_lt_of_pos _ (by omega)
  show (if i % (2 * (n:Int)) < n then (i % (2 * (n:Int))).toNat else (2 * (n : Int) - 1 - i % (2 * (n:Int))).toNat) < n
  split <;> omega

theorem reflIdx_of_lt (n : Nat) (i : Nat) (hi : i < n) : reflIdx n (i : Int) = i := by
  unfold reflIdx
  have e : (i : Int) % (2 * (n:Int)) = i := Int.emod_eq_of_lt (by omega) (by omega)
  show (if (i:Int) % (2 * (n:Int)) < n then ((i:Int) % (2 * (n:Int))).toNat else (2 * (n : Int) - 1 - (i:Int) % (2 * (n:Int))).toNat) = i
  rw [e]; split <;> omega

theorem reflIdx_period (n : Nat) (k q : Int) : reflIdx n (k + 2 * (n:Int) * q) = reflIdx n k := by
  have e : (k + 2 * (n:Int) * q).emod (2 * (n:Int)) = k.emod (2 * (n:Int)) :=
    Int.add_mul_emod_self_left k (2 * (n:Int)) q
  unfold reflIdx
  simp only [e]

theorem reflIdx_mirror (n : Nat) (hn : 0 < n) (k : Int) : reflIdx n (-1 - k) = reflIdx n k := by
  have h0 : (0:Int) ≤ k % (2 * (n:Int)) := Int.emod_nonneg _ (by omega)
  have h1 : k % (2 * (n:Int)) < 2 * (n:Int) := Int.emod_lt_of_pos _ (by omega)
  have hk : k = 2 * (n:Int) * (k / (2 * (n:Int))) + k % (2 * (n:Int)) := (Int.mul_ediv_add_emod k _).symm
  have e : (-1 - k) % (2 * (n:Int)) = 2 * (n:Int) - 1 - k % (2 * (n:Int)) := by
    have e1 : -1 - k = (2 * (n:Int) - 1 - k % (2 * (n:Int))) + 2 * (n:Int) * (-(k / (2 * (n:Int))) - 1) := by
      generalize k / (2 * (n:Int)) = q at hk
      generalize k % (2 * (n:Int)) = m at hk
      rw [Int.mul_sub, Int.mul_neg]
      omega
    rw [e1, Int.add_mul_emod_self_left]
    exact Int.emod_eq_of_lt (by omega) (by omega)
  unfold reflIdx
  show (if (-1 - k) % (2 * (n:Int)) < n then ((-1 - k) % (2 * (n:Int))).toNat else (2 * (n : Int) - 1 - (-1 - k) % (2 * (n:Int))).toNat)
     = (if k % (2 * (n:Int)) < n then (k % (2 * (n:Int))).toNat else (2 * (n : Int) - 1 - k % (2 * (n:Int))).toNat)
  rw [e]
  generalize k % (2 * (n:Int)) = m at h0 h1
  split <;> split <;> omega

theorem reflIdx_cases (n : Nat) (hn : 0 < n) (i : Int) :
    ∃ q : Int, i = (reflIdx n i : Int) + 2 * (n:Int) * q ∨ i = (-1 - (reflIdx n i : Int)) + 2 * (n:Int) * q := by
  have h0 : (0:Int) ≤ i % (2 * (n:Int)) := Int.emod_nonneg _ (by omega)
  have h1 : i % (2 * (n:Int)) < 2 * (n:Int) := Int.emod_lt_of_pos _ (by omega)
  have hk : i = 2 * (n:Int) * (i / (2 * (n:Int))) + i % (2 * (n:Int)) := (Int.mul_ediv_add_emod i _).symm
  unfold reflIdx
  show ∃ q : Int, i = ((if i % (2 * (n:Int)) < n then (i % (2 * (n:Int))).toNat else (2 * (n : Int) - 1 - i % (2 * (n:Int))).toNat : Nat) : Int) + 2 * (n:Int) * q
    ∨ i = (-1 - ((if i % (2 * (n:Int)) < n then (i % (2 * (n:Int))).toNat else (2 * (n : Int) - 1 - i % (2 * (n:Int))).toNat : Nat) : Int)) + 2 * (n:Int) * q
  generalize i / (2 * (n:Int)) = q at hk
  generalize i % (2 * (n:Int)) = m at hk h0 h1
  by_cases hm : m < n
  · refine ⟨q, Or.inl ?_⟩
    rw [if_pos hm]; omega
  · refine ⟨q + 1, Or.inr ?_⟩
    rw [if_neg hm, Int.mul_add]; omega

theorem ext_period (f : List Rat) (k q : Int) : ext f (k + 2 * (f.length:Int) * q) = ext f k := by
  unfold ext; rw [reflIdx_period]
theorem ext_mirror (f : List Rat) (hf : f ≠ []) (k : Int) : ext f (-1 - k) = ext f k := by
  unfold ext; rw [reflIdx_mirror _ (List.length_pos_iff.mpr hf)]

/-- a reflected-periodic signal's window statistics are determined on `[0,n)` -/
theorem win_reduce (F : Int → Rat) (n : Nat) (hn : 0 < n)
    (hper : ∀ i q : Int, F (i + 2 * (n:Int) * q) = F i) (hmir : ∀ i : Int, F (-1 - i) = F i) (i : Int) :
    F i = F (reflIdx n i : Int) := by
  obtain ⟨q, hq | hq⟩ := reflIdx_cases n hn i
  · rw [← hper (reflIdx n i : Int) q, ← hq]
  · rw [← hmir (reflIdx n i : Int), ← hper (-1 - (reflIdx n i : Int)) q, ← hq]

theorem getD_range_map (n : Nat) (φ : Nat → Rat) (j : Nat) (hj : j < n) :
    ((List.range n).map φ).getD j 0 = φ j := by
  simp [List.getD_eq_getElem?_getD, hj]

theorem ext_erode (h : Nat) (f : List Rat) (hf : f ≠ []) (i : Int) : ext (erode h f) i = winMin (ext f) h i := by
  have hn : 0 < f.length := List.length_pos_iff.mpr hf
  have hr := reflIdx_lt f.length hn i
  have e1 : ext (erode h f) i = winMin (ext f) h (reflIdx f.length i : Int) := by
    show (erode h f).getD (reflIdx (erode h f).length i) 0 = _
    rw [erode_length]; unfold erode
    rw [getD_range_map _ _ _ hr]
  rw [e1]
  exact (win_reduce (winMin (ext f) h) f.length hn
    (fun i q => winMin_translate _ _ (fun k => ext_period f k q) h i)
    (fun i => winMin_mirror _ (ext_mirror f hf) h i) i).symm

theorem ext_dilate (h : Nat) (f : List Rat) (hf : f ≠ []) (i : Int) : ext (dilate h f) i = winMax (ext f) h i := by
  have hn : 0 < f.length := List.length_pos_iff.mpr hf
  have hr := reflIdx_lt f.length hn i
  have e1 : ext (dilate h f) i = winMax (ext f) h (reflIdx f.length i : Int) := by
    show (dilate h f).getD (reflIdx (dilate h f).length i) 0 = _
    rw [dilate_length]; unfold dilate
    rw [getD_range_map _ _ _ hr]
  rw [e1]
  exact (win_reduce (winMax (ext f) h) f.length hn
    (fun i q => winMax_translate _ _ (fun k => ext_period f k q) h i)
    (fun i => winMax_mirror _ (ext_mirror f hf) h i) i).symm

/-! ### lattice laws on infinite signals -/
theorem winMin_mono (g g' : Int → Rat) (H : ∀ k, g k ≤ g' k) (h : Nat) (i : Int) :
    winMin g h i ≤ winMin g' h i := by
  apply le_winMin; intro j h1 h2
  exact Rat.le_trans (winMin_le g h i j h1 h2) (H _)

theorem winMax_mono (g g' : Int → Rat) (H : ∀ k, g k ≤ g' k) (h : Nat) (i : Int) :
    winMax g h i ≤ winMax g' h i := by
  apply winMax_le; intro j h1 h2
  exact Rat.le_trans (H _) (le_winMax g' h i j h1 h2)

theorem winMax_winMin_le (g : Int → Rat) (h : Nat) (i : Int) : winMax (winMin g h) h i ≤ g i := by
  apply winMax_le; intro j h1 h2
  have := winMin_le g h (i + j) (-j) (by omega) (by omega)
  have e : i + j + -j = i := by omega
  rw [e] at this; exact this

theorem le_winMin_winMax (g : Int → Rat) (h : Nat) (i : Int) : g i ≤ winMin (winMax g h) h i := by
  apply le_winMin; intro j h1 h2
  have := le_winMax g h (i + j) (-j) (by omega) (by omega)
  have e : i + j + -j = i := by omega
  rw [e] at this; exact this

theorem winMin_winMax_winMin (g : Int → Rat) (h : Nat) :
    winMin (winMax (winMin g h) h) h = winMin g h := by
  funext i
  apply Rat.le_antisymm
  · exact winMin_mono _ _ (winMax_winMin_le g h) h i
  · exact le_winMin_winMax (winMin g h) h i

theorem ext_opening (h : Nat) (f : List Rat) (hf : f ≠ []) :
    ext (opening h f) = winMax (winMin (ext f) h) h := by
  have hne : erode h f ≠ [] := by
    intro e; have := erode_length h f; rw [e] at this
    exact hf (List.length_eq_zero_iff.mp this.symm)
  funext i
  unfold opening
  rw [ext_dilate h _ hne]
  have : ext (erode h f) = winMin (ext f) h := funext (ext_erode h f hf)
  rw [this]

theorem ext_of_lt (f : List Rat) (i : Nat) (hi : i < f.length) : ext f (i : Int) = f.getD i 0 := by
  unfold ext; rw [reflIdx_of_lt _ _ hi]

theorem opening_eq (h : Nat) (f : List Rat) (hf : f ≠ []) :
    opening h f = (List.range f.length).map fun (i : Nat) => winMax (winMin (ext f) h) h (i : Int) := by
  have : ext (erode h f) = winMin (ext f) h := funext (ext_erode h f hf)
  unfold opening dilate
  rw [erode_length, this]

theorem opening_nil (h : Nat) : opening h [] = [] := by
  simp [opening, dilate, erode]

theorem opening_le (h : Nat) (f : List Rat) : LeL (opening h f) f := by
  refine ⟨opening_length h f, ?_⟩
  intro i hi
  rw [opening_length] at hi
  have hf : f ≠ [] := by intro e; rw [e] at hi; simp at hi
  rw [opening_eq h f hf, getD_range_map _ _ _ hi, ← ext_of_lt f i hi]
  exact winMax_winMin_le _ _ _

theorem opening_idem (h : Nat) (f : List Rat) : opening h (opening h f) = opening h f := by
  by_cases hf : f = []
  · subst hf; simp [opening_nil]
  · have hne : opening h f ≠ [] := by
      intro e; have := opening_length h f; rw [e] at this
      exact hf (List.length_eq_zero_iff.mp this.symm)
    rw [opening_eq h (opening h f) hne, opening_length, ext_opening h f hf, winMin_winMax_winMin,
      ← opening_eq h f hf]

/-! ### shifts -/
theorem foldl_min_shift (l : List Nat) (a : Rat) (b : Nat → Rat) (c : Rat) :
    l.foldl (fun acc k => min acc (b k + c)) (a + c) = l.foldl (fun acc k => min acc (b k)) a + c := by
  induction l generalizing a with
  | nil => rfl
  | cons x xs ih =>
    simp only [List.foldl]
    have e : min (a + c) (b x + c) = min a (b x) + c := by grind
    rw [e, ih]

theorem foldl_max_shift (l : List Nat) (a : Rat) (b : Nat → Rat) (c : Rat) :
    l.foldl (fun acc k => max acc (b k + c)) (a + c) = l.foldl (fun acc k => max acc (b k)) a + c := by
  induction l generalizing a with
  | nil => rfl
  | cons x xs ih =>
    simp only [List.foldl]
    have e : max (a + c) (b x + c) = max a (b x) + c := by grind
    rw [e, ih]

theorem winMin_shift (g : Int → Rat) (c : Rat) (h : Nat) (i : Int) :
    winMin (fun k => g k + c) h i = winMin g h i + c := by
  unfold winMin winFold
  exact foldl_min_shift _ _ (fun k => g (i - (h:Int) + 1 + (k:Int))) c

theorem winMax_shift (g : Int → Rat) (c : Rat) (h : Nat) (i : Int) :
    winMax (fun k => g k + c) h i = winMax g h i + c := by
  unfold winMax winFold
  exact foldl_max_shift _ _ (fun k => g (i - (h:Int) + 1 + (k:Int))) c

theorem ext_shift (f : List Rat) (hf : f ≠ []) (c : Rat) :
    ext (f.map (· + c)) = fun k => ext f k + c := by
  funext k
  have hn : 0 < f.length := List.length_pos_iff.mpr hf
  have hr := reflIdx_lt f.length hn k
  show (f.map (· + c)).getD (reflIdx (f.map (· + c)).length k) 0 = f.getD (reflIdx f.length k) 0 + c
  rw [List.length_map]
  simp [List.getD_eq_getElem?_getD, hr]

theorem erode_shift (h : Nat) (f : List Rat) (c : Rat) :
    erode h (f.map (· + c)) = (erode h f).map (· + c) := by
  by_cases hf : f = []
  · subst hf; simp [erode]
  · unfold erode
    rw [ext_shift f hf c, List.length_map, List.map_map]
    apply List.map_congr_left
    intro i _
    exact winMin_shift _ _ _ _

theorem dilate_shift (h : Nat) (f : List Rat) (c : Rat) :
    dilate h (f.map (· + c)) = (dilate h f).map (· + c) := by
  by_cases hf : f = []
  · subst hf; simp [dilate]
  · unfold dilate
    rw [ext_shift f hf c, List.length_map, List.map_map]
    apply List.map_congr_left
    intro i _
    exact winMax_shift _ _ _ _

theorem opening_shift (h : Nat) (f : List Rat) (c : Rat) :
    opening h (f.map (· + c)) = (opening h f).map (· + c) := by
  unfold opening; rw [erode_shift, dilate_shift]

theorem avgOfOpening_shift (h : Nat) (f : List Rat) (c : Rat) :
    avgOfOpening h (f.map (· + c)) = (avgOfOpening h f).map (· + c) := by
  unfold avgOfOpening
  rw [erode_shift, dilate_shift, List.zipWith_map, List.map_zipWith]
  congr 1
  funext a b
  grind

theorem avgOpening_shift (h : Nat) (f : List Rat) (c : Rat) :
    avgOpening h (f.map (· + c)) = (avgOpening h f).map (· + c) := by
  unfold avgOpening; rw [opening_shift, avgOfOpening_shift]

theorem mor_shift (h : Nat) (f : List Rat) (c : Rat) : mor h (f.map (· + c)) = (mor h f).map (· + c) := by
  unfold mor
  rw [opening_shift, avgOpening_shift, List.zipWith_map, List.map_zipWith]
  congr 1
  funext a b
  grind

/-! ### order -/
theorem avgOpening_length (h : Nat) (f : List Rat) : (avgOpening h f).length = f.length := by
  simp [avgOpening, avgOfOpening, erode_length, dilate_length, opening_length]

theorem LeL_refl (a : List Rat) : LeL a a := ⟨rfl, fun _ _ => Rat.le_refl⟩

theorem LeL_trans {a b c : List Rat} (h1 : LeL a b) (h2 : LeL b c) : LeL a c :=
  ⟨h1.1.trans h2.1, fun i hi => Rat.le_trans (h1.2 i hi) (h2.2 i (h1.1 ▸ hi))⟩

theorem zipWith_min_LeL_left (a b : List Rat) (hl : a.length = b.length) : LeL (List.zipWith min a b) a := by
  refine ⟨by simp [hl], ?_⟩
  intro i hi
  simp only [List.length_zipWith] at hi
  have ha : i < a.length := by omega
  have hb : i < b.length := by omega
  simp only [List.getD_eq_getElem?_getD, List.getElem?_zipWith, List.getElem?_eq_getElem ha,
    List.getElem?_eq_getElem hb]
  grind

theorem mor_le (h : Nat) (f : List Rat) : LeL (mor h f) f := by
  unfold mor
  exact LeL_trans (zipWith_min_LeL_left _ _ (by rw [opening_length, avgOpening_length])) (opening_le h f)

theorem imorIter_length (h : Nat) (y : List Rat) (k : Nat) : (imorIter h y k).length = y.length := by
  cases k with
  | zero => rfl
  | succ k => simp [imorIter, imorStep, avgOpening_length, imorIter_length h y k]

theorem imor_le (h : Nat) (y : List Rat) (k : Nat) : LeL (imorIter h y k) y := by
  cases k with
  | zero => exact LeL_refl y
  | succ k =>
    show LeL (List.zipWith min y (avgOpening h (imorIter h y k))) y
    exact zipWith_min_LeL_left _ _ (by rw [avgOpening_length, imorIter_length])

/-! ### snip -/
theorem snipPass_length (order hwL hwR : Nat) (b : List Rat) (i : Nat) :
    (snipPass order hwL hwR b i).length = b.length := by
  simp [snipPass]

theorem snipPass_le (order hwL hwR : Nat) (b : List Rat) (i : Nat) : LeL (snipPass order hwL hwR b i) b := by
  refine ⟨snipPass_length _ _ _ _ _, ?_⟩
  intro j hj
  rw [snipPass_length] at hj
  unfold snipPass
  rw [getD_range_map _ _ _ hj]
  by_cases hg : i ≤ j ∧ j + i < b.length
  · rw [if_pos hg]
    show (if b.getD j 0 > _ then _ else b.getD j 0) ≤ b.getD j 0
    split <;> grind
  · rw [if_neg hg]; exact Rat.le_refl

theorem snipFold_length (order hwL hwR : Nat) (l : List Nat) (b : List Rat) :
    (l.foldl (snipPass order hwL hwR) b).length = b.length := by
  induction l generalizing b with
  | nil => rfl
  | cons x xs ih => simp only [List.foldl]; rw [ih, snipPass_length]

theorem snipFold_le (order hwL hwR : Nat) (l : List Nat) (b : List Rat) :
    LeL (l.foldl (snipPass order hwL hwR) b) b := by
  induction l generalizing b with
  | nil => exact LeL_refl b
  | cons x xs ih => simp only [List.foldl]; exact LeL_trans (ih _) (snipPass_le _ _ _ _ _)

theorem snipCore_length (order hwL hwR : Nat) (dec : Bool) (padded : List Rat) :
    (snipCore order hwL hwR dec padded).length = padded.length - 2 * max hwL hwR := by
  unfold snipCore
  simp only [List.length_take, List.length_drop, snipFold_length]
  omega

theorem snipCore_le (order hwL hwR : Nat) (dec : Bool) (pl data pr : List Rat)
    (hl : pl.length = max hwL hwR) (hr : pr.length = max hwL hwR) :
    LeL (snipCore order hwL hwR dec (pl ++ data ++ pr)) data := by
  have hlen : (snipCore order hwL hwR dec (pl ++ data ++ pr)).length = data.length := by
    rw [snipCore_length]; simp only [List.length_append]; omega
  refine ⟨hlen, ?_⟩
  intro i hi
  rw [hlen] at hi
  have hfold := snipFold_le order hwL hwR (snipSchedule (max hwL hwR) dec) (pl ++ data ++ pr)
  have hfl := snipFold_length order hwL hwR (snipSchedule (max hwL hwR) dec) (pl ++ data ++ pr)
  have hi2 : max hwL hwR + i < (pl ++ data ++ pr).length := by
    simp only [List.length_append]; omega
  have key := hfold.2 (max hwL hwR + i) (by rw [hfl]; exact hi2)
  have e1 : (snipCore order hwL hwR dec (pl ++ data ++ pr)).getD i 0
      = ((snipSchedule (max hwL hwR) dec).foldl (snipPass order hwL hwR) (pl ++ data ++ pr)).getD (max hwL hwR + i) 0 := by
    unfold snipCore
    simp only [List.getD_eq_getElem?_getD, List.getElem?_take, List.getElem?_drop, hfl]
    rw [if_pos (by simp only [List.length_append]; omega)]
  have e2 : (pl ++ data ++ pr).getD (max hwL hwR + i) 0 = data.getD i 0 := by
    simp only [List.getD_eq_getElem?_getD]
    rw [List.getElem?_append_left (by simp only [List.length_append]; omega),
      List.getElem?_append_right (by omega)]
    congr 2; omega
  rw [e1, ← e2]; exact key

theorem snipFilter_shift (order : Nat) (g g' : Int → Rat) (j : Int) (il ir : Nat) (c : Rat)
    (HL : ∀ d : Nat, d ≤ il → g' (j - (d : Int)) = g (j - (d : Int)) + c)
    (HR : ∀ d : Nat, d ≤ ir → g' (j + (d : Int)) = g (j + (d : Int)) + c) :
    snipFilter order g' j il ir = snipFilter order g j il ir + c := by
  have l11 := HL (1 * il / 1) (by omega)
  have l12 := HL (1 * il / 2) (by omega)
  have l23 := HL (2 * il / 3) (by omega)
  have l13 := HL (1 * il / 3) (by omega)
  have l34 := HL (3 * il / 4) (by omega)
  have l14 := HL (1 * il / 4) (by omega)
  have r11 := HR (1 * ir / 1) (by omega)
  have r12 := HR (1 * ir / 2) (by omega)
  have r23 := HR (2 * ir / 3) (by omega)
  have r13 := HR (1 * ir / 3) (by omega)
  have r34 := HR (3 * ir / 4) (by omega)
  have r14 := HR (1 * ir / 4) (by omega)
  unfold snipFilter
  simp only [l11, l12, l23, l13, l34, l14, r11, r12, r23, r13, r34, r14]
  generalize g (j - ((1 * il / 1 : Nat) : Int)) = a1
  generalize g (j - ((1 * il / 2 : Nat) : Int)) = a2
  generalize g (j - ((2 * il / 3 : Nat) : Int)) = a3
  generalize g (j - ((1 * il / 3 : Nat) : Int)) = a4
  generalize g (j - ((3 * il / 4 : Nat) : Int)) = a5
  generalize g (j - ((1 * il / 4 : Nat) : Int)) = a6
  generalize g (j + ((1 * ir / 1 : Nat) : Int)) = b1
  generalize g (j + ((1 * ir / 2 : Nat) : Int)) = b2
  generalize g (j + ((2 * ir / 3 : Nat) : Int)) = b3
  generalize g (j + ((1 * ir / 3 : Nat) : Int)) = b4
  generalize g (j + ((3 * ir / 4 : Nat) : Int)) = b5
  generalize g (j + ((1 * ir / 4 : Nat) : Int)) = b6
  have f2 : (a1 + c + (b1 + c)) / 2 = (a1 + b1) / 2 + c := by grind
  have f4 : (-(a1 + c + (b1 + c)) + 4 * (a2 + c + (b2 + c))) / 6 = (-(a1 + b1) + 4 * (a2 + b2)) / 6 + c := by grind
  have f6 : (a1 + c + (b1 + c) - 6 * (a3 + c + (b3 + c)) + 15 * (a4 + c + (b4 + c))) / 20
      = (a1 + b1 - 6 * (a3 + b3) + 15 * (a4 + b4)) / 20 + c := by grind
  have f8 : (-(a1 + c + (b1 + c)) + 8 * (a5 + c + (b5 + c)) - 28 * (a2 + c + (b2 + c)) + 56 * (a6 + c + (b6 + c))) / 70
      = (-(a1 + b1) + 8 * (a5 + b5) - 28 * (a2 + b2) + 56 * (a6 + b6)) / 70 + c := by grind
  rw [f2, f4, f6, f8]
  have mx : ∀ x y : Rat, max (x + c) (y + c) = max x y + c := by intro x y; grind
  by_cases h2 : order > 2 <;> by_cases h4 : order > 4 <;> by_cases h6 : order > 6 <;>
    simp only [h2, h4, h6, if_true, if_false, mx]

theorem getD_map_add (b : List Rat) (c : Rat) (j : Nat) (hj : j < b.length) :
    (b.map (· + c)).getD j 0 = b.getD j 0 + c := by
  simp [List.getD_eq_getElem?_getD, hj]

theorem snipPass_shift (order hwL hwR : Nat) (b : List Rat) (c : Rat) (i : Nat) :
    snipPass order hwL hwR (b.map (· + c)) i = (snipPass order hwL hwR b i).map (· + c) := by
  unfold snipPass
  rw [List.length_map, List.map_map]
  apply List.map_congr_left
  intro j hj
  have hj' : j < b.length := List.mem_range.mp hj
  simp only [Function.comp]
  rw [getD_map_add b c j hj']
  by_cases hg : i ≤ j ∧ j + i < b.length
  · rw [if_pos hg, if_pos hg]
    have hf : snipFilter order (fun k : Int => (b.map (· + c)).getD k.toNat 0) (j : Int) (min i hwL) (min i hwR)
        = snipFilter order (fun k : Int => b.getD k.toNat 0) (j : Int) (min i hwL) (min i hwR) + c := by
      apply snipFilter_shift
      · intro d hd
        exact getD_map_add b c _ (by omega)
      · intro d hd
        exact getD_map_add b c _ (by omega)
    simp only [hf]
    generalize snipFilter order (fun k : Int => b.getD k.toNat 0) (j : Int) (min i hwL) (min i hwR) = F
    generalize b.getD j 0 = y
    by_cases hy : y > F
    · have : y + c > F + c := by grind
      rw [if_pos hy, if_pos this]
    · have : ¬ (y + c > F + c) := by grind
      rw [if_neg hy, if_neg this]
  · rw [if_neg hg, if_neg hg]

theorem snipFold_shift (order hwL hwR : Nat) (l : List Nat) (b : List Rat) (c : Rat) :
    l.foldl (snipPass order hwL hwR) (b.map (· + c)) = (l.foldl (snipPass order hwL hwR) b).map (· + c) := by
  induction l generalizing b with
  | nil => rfl
  | cons x xs ih => simp only [List.foldl]; rw [snipPass_shift, ih]

theorem snipCore_shift (order hwL hwR : Nat) (dec : Bool) (padded : List Rat) (c : Rat) :
    snipCore order hwL hwR dec (padded.map (· + c)) = (snipCore order hwL hwR dec padded).map (· + c) := by
  unfold snipCore
  simp only [snipFold_shift, List.length_map, List.map_take, List.map_drop]

end PbVerif.Lemmas
