import PbVerif.Lemmas.ThreadsCore
/-! C04: first-call initialisation (1-D, 2-D) and the spline-basis cache under every interleaving. -/
set_option linter.unusedVariables false
namespace PbVerif.Lemmas
open PbVerif.Threads

/-- thread-modular (Owicki–Gries style) rule: a global part `G` and a per-thread part `L`; the stepping thread re-establishes
`G` and its own `L`, and `L` of every other thread is stable under the step -/
theorem runSched_modular {σ τ α : Type} (P : Proto σ τ α) (G : σ → Prop) (L : σ → τ → Prop)
    (hown : ∀ s t, G s → L s t → G (P.step s t).1 ∧ L (P.step s t).1 (P.step s t).2.1)
    (hstab : ∀ s t u, G s → L s t → L s u → L (P.step s t).1 u)
    (s : σ) (ts : List τ) (hG : G s) (hL : ∀ t ∈ ts, L s t) (sched : List Nat) :
    G (runSched P s ts sched).1 ∧ ∀ t ∈ (runSched P s ts sched).2, L (runSched P s ts sched).1 t := by
  refine runSched_inv P (fun s ts => G s ∧ ∀ t ∈ ts, L s t) ?_ s ts ⟨hG, hL⟩ sched
  intro s ts i t ⟨hg, hl⟩ hi
  have hti : t ∈ ts := List.mem_of_getElem? hi
  have hLt := hl t hti
  refine ⟨(hown s t hg hLt).1, ?_⟩
  intro u hu
  rcases List.mem_or_eq_of_mem_set hu with h | h
  · exact hstab s t u hg hLt (hl u h)
  · subst h; exact (hown s t hg hLt).2

/-! ### Lazy1 -/

def lazy1G (s : Lazy1.Sh) : Prop := (s.x = true → s.size = true ∧ s.shape = true) ∧ (s.shape = true → s.size = true)
def lazy1L (s : Lazy1.Sh) : Lazy1.PC → Prop
  | .w2 => s.size = true
  | .w3 => s.size = true ∧ s.shape = true
  | .use => s.x = true
  | .fail => False
  | _ => True

theorem lazy1_own (s : Lazy1.Sh) (t : Lazy1.PC) (hg : lazy1G s) (hl : lazy1L s t) :
    lazy1G (Lazy1.step true s t).1 ∧ lazy1L (Lazy1.step true s t).1 (Lazy1.step true s t).2.1 := by
  rcases s with ⟨x, size, shape⟩
  cases t <;> cases x <;> cases size <;> cases shape <;> simp_all [lazy1G, lazy1L, Lazy1.step]

theorem lazy1_stab (s : Lazy1.Sh) (t u : Lazy1.PC) (hg : lazy1G s) (hl : lazy1L s t) (hu : lazy1L s u) :
    lazy1L (Lazy1.step true s t).1 u := by
  rcases s with ⟨x, size, shape⟩
  cases t <;> cases u <;> cases x <;> cases size <;> cases shape <;> simp_all [lazy1G, lazy1L, Lazy1.step]

/-- repaired order, any number of threads, every schedule, fitter created without x: no call fails -/
theorem lazy1_fixed_safe (n : Nat) (sched : List Nat) :
    ∀ pc ∈ (runSched (Lazy1.proto true) Lazy1.init (List.replicate n Lazy1.PC.start) sched).2, pc ≠ Lazy1.PC.fail := by
  have h := runSched_modular (Lazy1.proto true) lazy1G lazy1L lazy1_own lazy1_stab Lazy1.init
    (List.replicate n Lazy1.PC.start) (by simp [lazy1G, Lazy1.init])
    (by intro t ht; rw [List.eq_of_mem_replicate ht]; simp [lazy1L]) sched
  intro pc hpc hf
  have := h.2 pc hpc
  subst hf
  simp [lazy1L] at this

def lazy1G' (s : Lazy1.Sh) : Prop := s.x = true ∧ s.size = true ∧ s.shape = true
def lazy1L' (s : Lazy1.Sh) (pc : Lazy1.PC) : Prop := pc ≠ .fail

theorem lazy1_own' (xLast : Bool) (s : Lazy1.Sh) (t : Lazy1.PC) (hg : lazy1G' s) (hl : lazy1L' s t) :
    lazy1G' (Lazy1.step xLast s t).1 ∧ lazy1L' (Lazy1.step xLast s t).1 (Lazy1.step xLast s t).2.1 := by
  rcases s with ⟨x, size, shape⟩
  cases t <;> cases xLast <;> simp_all [lazy1G', lazy1L', Lazy1.step]

/-- … and created with x -/
theorem lazy1_given_safe (xLast : Bool) (n : Nat) (sched : List Nat) :
    ∀ pc ∈ (runSched (Lazy1.proto xLast) ⟨true, true, true⟩ (List.replicate n Lazy1.PC.start) sched).2, pc ≠ Lazy1.PC.fail := by
  have h := runSched_modular (Lazy1.proto xLast) lazy1G' lazy1L' (lazy1_own' xLast)
    (fun s t u _ _ hu => hu) ⟨true, true, true⟩
    (List.replicate n Lazy1.PC.start) (by simp [lazy1G'])
    (by intro t ht; rw [List.eq_of_mem_replicate ht]; simp [lazy1L']) sched
  exact fun pc hpc => h.2 pc hpc

def lazy1Rank : Lazy1.PC → Nat
  | .start => 4 | .w1 => 3 | .w2 => 2 | .w3 => 1 | .use => 1 | .ok => 0 | .fail => 0

theorem lazy1_rank_step (xLast : Bool) (s : Lazy1.Sh) (pc : Lazy1.PC) :
    lazy1Rank (Lazy1.step xLast s pc).2.1 ≤ lazy1Rank pc - 1 := by
  rcases s with ⟨x, size, shape⟩
  cases pc <;> cases xLast <;> cases x <;> cases size <;> cases shape <;> simp [lazy1Rank, Lazy1.step]

theorem lazy1_terminates_aux (xLast : Bool) (i : Nat) (sched : List Nat) :
    ∀ (s : Lazy1.Sh) (pcs : List Lazy1.PC) (pc : Lazy1.PC), pcs[i]? = some pc → lazy1Rank pc ≤ sched.count i →
    (runSched (Lazy1.proto xLast) s pcs sched).2[i]? = some Lazy1.PC.ok ∨ (runSched (Lazy1.proto xLast) s pcs sched).2[i]? = some Lazy1.PC.fail := by
  induction sched with
  | nil =>
    intro s pcs pc h hr
    cases pc <;> simp_all [lazy1Rank, runSched]
  | cons j rest ih =>
    intro s pcs pc h hr
    unfold runSched
    by_cases hji : j = i
    · subst hji
      rw [h]
      simp only
      have hlt : j < pcs.length := by
        rcases Nat.lt_or_ge j pcs.length with hlt | hge
        · exact hlt
        · rw [List.getElem?_eq_none hge] at h; cases h
      apply ih _ _ ((Lazy1.proto xLast).step s pc).2.1
      · simp [List.getElem?_set_self hlt]
      · have := lazy1_rank_step xLast s pc
        simp only [List.count_cons_self] at hr
        show lazy1Rank (Lazy1.step xLast s pc).2.1 ≤ _
        omega
    · have hc : (j :: rest).count i = rest.count i := by
        simp [hji]
      rw [hc] at hr
      cases hj : pcs[j]? with
      | none => exact ih s pcs pc h hr
      | some t =>
        simp only
        apply ih _ _ pc _ hr
        rw [List.getElem?_set_ne hji]; exact h

/-- every call finishes within four of its own steps -/
theorem lazy1_terminates (xLast : Bool) (s : Lazy1.Sh) (pcs : List Lazy1.PC) (sched : List Nat) (i : Nat) (hi : i < pcs.length)
    (h0 : pcs[i]? = some Lazy1.PC.start) (hc : 4 ≤ sched.count i) :
    (runSched (Lazy1.proto xLast) s pcs sched).2[i]? = some Lazy1.PC.ok ∨ (runSched (Lazy1.proto xLast) s pcs sched).2[i]? = some Lazy1.PC.fail :=
  lazy1_terminates_aux xLast i sched s pcs .start h0 (by simpa [lazy1Rank] using hc)

/-! ### Lazy2 -/

def lazy2G (s : Lazy2.Sh) : Prop :=
  (s.x = true → s.s0 = true) ∧ (s.z = true → s.s1 = true) ∧ (s.x = true → s.z = true → s.size = true)
def lazy2L (s : Lazy2.Sh) : Lazy2.PC → Prop
  | .start => True
  | .rz hx => hx = true → s.x = true
  | .chk hx hz => (hx = true → s.x = true) ∧ (hz = true → s.z = true)
  | .argX => True
  | .argZ => True
  | .rsh hx hz => (hx = true → s.x = true) ∧ (hz = true → s.z = true)
  | .wsh _ _ a b => a = true ∧ b = true
  | .rprod _ _ => s.s0 = true ∧ s.s1 = true
  | .wsize _ _ c => c = true ∧ s.s0 = true ∧ s.s1 = true
  | .wz _ _ => s.s0 = true ∧ s.s1 = true ∧ s.size = true
  | .wx => s.s0 = true ∧ s.s1 = true ∧ s.size = true
  | .use => s.s0 = true ∧ s.s1 = true ∧ s.size = true
  | .ok => True
  | _ => False

/-- flag-wise order on the shared state -/
def lazy2Le (s s' : Lazy2.Sh) : Prop :=
  (s.x = true → s'.x = true) ∧ (s.z = true → s'.z = true) ∧ (s.s0 = true → s'.s0 = true) ∧
  (s.s1 = true → s'.s1 = true) ∧ (s.size = true → s'.size = true)

theorem lazy2L_mono (s s' : Lazy2.Sh) (u : Lazy2.PC) (h : lazy2Le s s') (hu : lazy2L s u) : lazy2L s' u := by
  rcases s with ⟨x, z, s0, s1, size⟩
  rcases s' with ⟨x', z', s0', s1', size'⟩
  cases u <;> simp_all [lazy2L, lazy2Le]

theorem lazy2_step_le (s : Lazy2.Sh) (t : Lazy2.PC) (hl : lazy2L s t) : lazy2Le s (Lazy2.step true s t).1 := by
  rcases s with ⟨x, z, s0, s1, size⟩
  cases t with
  | chk hx hz =>
    have : (Lazy2.step true ⟨x, z, s0, s1, size⟩ (.chk hx hz)).1 = ⟨x, z, s0, s1, size⟩ := by
      simp only [Lazy2.step]; split <;> (try split) <;> rfl
    rw [this]; simp [lazy2Le]
  | _ => simp_all [lazy2L, lazy2Le, Lazy2.step]

theorem lazy2_own (s : Lazy2.Sh) (t : Lazy2.PC) (hg : lazy2G s) (hl : lazy2L s t) :
    lazy2G (Lazy2.step true s t).1 ∧ lazy2L (Lazy2.step true s t).1 (Lazy2.step true s t).2.1 := by
  rcases s with ⟨x, z, s0, s1, size⟩
  cases t with
  | chk hx hz => cases hx <;> cases hz <;> simp_all [lazy2G, lazy2L, Lazy2.step]
  | rsh hx hz => cases hx <;> cases hz <;> simp_all [lazy2G, lazy2L, Lazy2.step]
  | wsize hx hz c => cases hx <;> cases hz <;> simp_all [lazy2G, lazy2L, Lazy2.step]
  | wz hx hz => cases hx <;> cases hz <;> simp_all [lazy2G, lazy2L, Lazy2.step]
  | _ => simp_all [lazy2G, lazy2L, Lazy2.step]

theorem lazy2_stab (s : Lazy2.Sh) (t u : Lazy2.PC) (hg : lazy2G s) (hl : lazy2L s t) (hu : lazy2L s u) :
    lazy2L (Lazy2.step true s t).1 u :=
  lazy2L_mono _ _ u (lazy2_step_le s t hl) hu

/-- 2-D, repaired order, for each way the fitter was created (x and / or z given or not) -/
theorem lazy2_fixed_safe (hasX hasZ : Bool) (n : Nat) (sched : List Nat) :
    ∀ pc ∈ (runSched (Lazy2.proto true) (Lazy2.init hasX hasZ) (List.replicate n Lazy2.PC.start) sched).2, pc ≠ Lazy2.PC.fail := by
  have h := runSched_modular (Lazy2.proto true) lazy2G lazy2L lazy2_own lazy2_stab (Lazy2.init hasX hasZ)
    (List.replicate n Lazy2.PC.start) (by cases hasX <;> cases hasZ <;> simp [lazy2G, Lazy2.init])
    (by intro t ht; rw [List.eq_of_mem_replicate ht]; simp [lazy2L]) sched
  intro pc hpc hf
  have := h.2 pc hpc
  subst hf
  simp [lazy2L] at this

/-! ### Basis -/

def basisL (p : Nat × Nat) (s : Basis.Sh) : Basis.PC → Prop
  | .bind => s.ref = some p
  | .done g => g = some p
  | _ => True

theorem basis_own (p : Nat × Nat) (s : Basis.Sh) (t : Basis.PC) (hg : True) (hl : basisL p s t) :
    True ∧ basisL p (Basis.step p s t).1 (Basis.step p s t).2.1 := by
  refine ⟨trivial, ?_⟩
  rcases s with ⟨r⟩
  cases t with
  | start => simp only [Basis.step]; split <;> simp [basisL]
  | same => simp only [Basis.step]; split <;> simp_all [basisL]
  | publish => simp [Basis.step, basisL]
  | bind => simpa [Basis.step, basisL] using hl
  | done g => simpa [Basis.step, basisL] using hl

theorem basis_stab (p : Nat × Nat) (s : Basis.Sh) (t u : Basis.PC) (hg : True) (hl : basisL p s t) (hu : basisL p s u) :
    basisL p (Basis.step p s t).1 u := by
  rcases s with ⟨r⟩
  cases t <;> cases u <;> simp_all [Basis.step, basisL]

/-- spline-basis cache: identical (num_knots, degree) in every call, any cached basis (or none) to begin with: the basis a call
builds its P-spline from is the one for its own parameters -/
theorem basis_safe (p : Nat × Nat) (s0 : Basis.Sh) (n : Nat) (sched : List Nat) :
    ∀ pc ∈ (runSched (Basis.proto p) s0 (List.replicate n Basis.PC.start) sched).2, ∀ g, pc = Basis.PC.done g → g = some p := by
  have h := runSched_modular (Basis.proto p) (fun _ => True) (basisL p) (basis_own p) (basis_stab p) s0
    (List.replicate n Basis.PC.start) trivial
    (by intro t ht; rw [List.eq_of_mem_replicate ht]; simp [basisL]) sched
  intro pc hpc g hg
  have := h.2 pc hpc
  subst hg
  simpa [basisL] using this

end PbVerif.Lemmas
