import PbVerif.Model.LoopS
import Mathlib.Logic.Function.Iterate
import Mathlib.Algebra.Order.Field.Rat
/-! Lemmas for C06 `converged_pair_solves`: what the stateful loops hand back. -/
set_option linter.unusedVariables false
namespace PbVerif.Lemmas
open PbVerif.Loop

section single
variable {S B : Type} (solve : S → B) (rule : B → Nat → S → S × Bool × Rat) (tol : Rat) (s0 : S)

/-- the recorded difference / early-exit flag of pass `j` along the iterates -/
def dOf (j : Nat) : Rat := (rule (solve (stateSeq solve rule s0 j)) j (stateSeq solve rule s0 j)).2.2
def exitOf (j : Nat) : Bool := (rule (solve (stateSeq solve rule s0 j)) j (stateSeq solve rule s0 j)).2.1

theorem runS_spec (r k : Nat) (b0 : Option B) :
    let res := runS solve rule tol r k (stateSeq solve rule s0 k) b0
    (res.len, res.stop) = loopFrom (dOf solve rule s0) (exitOf solve rule s0) tol r k ∧
    (res.stop = .converged → k + 1 ≤ res.len ∧ res.state = stateSeq solve rule s0 (res.len - 1) ∧ res.base = some (solve res.state)) ∧
    (res.stop = .early → res.state = stateSeq solve rule s0 res.len ∧ res.base = some (solve res.state)) ∧
    (res.stop = .exhausted → res.len = k + r ∧ res.state = stateSeq solve rule s0 (k + r) ∧
      (0 < r → res.base = some (solve (stateSeq solve rule s0 (k + r - 1)))) ∧ (r = 0 → res.base = b0)) := by
  induction r generalizing k b0 with
  | zero =>
    simp only [runS, loopFrom]
    refine ⟨trivial, ?_, ?_, ?_⟩
    · intro h; cases h
    · intro h; cases h
    · intro _; exact ⟨by trivial, by trivial, fun h => absurd h (Nat.lt_irrefl 0), fun _ => by trivial⟩
  | succ r ih =>
    simp only [runS, loopFrom]
    have hex : exitOf solve rule s0 k = (rule (solve (stateSeq solve rule s0 k)) k (stateSeq solve rule s0 k)).2.1 := rfl
    have hd : dOf solve rule s0 k = (rule (solve (stateSeq solve rule s0 k)) k (stateSeq solve rule s0 k)).2.2 := rfl
    rw [hex, hd]
    by_cases he : (rule (solve (stateSeq solve rule s0 k)) k (stateSeq solve rule s0 k)).2.1 = true
    · simp only [he, if_true]
      refine ⟨trivial, ?_, ?_, ?_⟩
      · intro h; cases h
      · intro _; exact ⟨by trivial, by trivial⟩
      · intro h; cases h
    · have he' : (rule (solve (stateSeq solve rule s0 k)) k (stateSeq solve rule s0 k)).2.1 = false := by simpa using he
      simp only [he', Bool.false_eq_true, if_false]
      by_cases hc : (rule (solve (stateSeq solve rule s0 k)) k (stateSeq solve rule s0 k)).2.2 < tol
      · simp only [hc, if_true]
        refine ⟨trivial, ?_, ?_, ?_⟩
        · intro _; exact ⟨Nat.le_refl _, by rw [Nat.add_sub_cancel], by trivial⟩
        · intro h; cases h
        · intro h; cases h
      · simp only [hc, if_false]
        have hs : (rule (solve (stateSeq solve rule s0 k)) k (stateSeq solve rule s0 k)).1 = stateSeq solve rule s0 (k + 1) := rfl
        rw [hs]
        obtain ⟨h0, h1, h2, h3⟩ := ih (k + 1) (some (solve (stateSeq solve rule s0 k)))
        refine ⟨h0, ?_, h2, ?_⟩
        · intro hcv
          obtain ⟨a, b, c⟩ := h1 hcv
          exact ⟨by omega, b, c⟩
        · intro hx
          obtain ⟨a, b, c, d⟩ := h3 hx
          have e1 : k + 1 + r = k + (r + 1) := by omega
          refine ⟨by omega, by rw [← e1]; exact b, fun _ => ?_, fun h => by omega⟩
          by_cases hr : r = 0
          · rw [d hr]; subst hr; rfl
          · have := c (by omega)
            have e2 : k + 1 + r - 1 = k + (r + 1) - 1 := by omega
            rw [← e2]; exact this

theorem run_spec (budget : Nat) :
    ((run solve rule tol budget s0).len, (run solve rule tol budget s0).stop)
        = runLoop budget tol (dOf solve rule s0) (exitOf solve rule s0) ∧
    ((run solve rule tol budget s0).stop = .converged → 1 ≤ (run solve rule tol budget s0).len ∧
      (run solve rule tol budget s0).state = stateSeq solve rule s0 ((run solve rule tol budget s0).len - 1) ∧
      (run solve rule tol budget s0).base = some (solve (run solve rule tol budget s0).state)) ∧
    ((run solve rule tol budget s0).stop = .early →
      (run solve rule tol budget s0).state = stateSeq solve rule s0 (run solve rule tol budget s0).len ∧
      (run solve rule tol budget s0).base = some (solve (run solve rule tol budget s0).state)) ∧
    ((run solve rule tol budget s0).stop = .exhausted → (run solve rule tol budget s0).len = budget ∧
      (run solve rule tol budget s0).state = stateSeq solve rule s0 budget ∧
      (0 < budget → (run solve rule tol budget s0).base = some (solve (stateSeq solve rule s0 (budget - 1))))) := by
  have h := runS_spec solve rule tol s0 budget 0 none
  simp only [Nat.zero_add] at h
  obtain ⟨h0, h1, h2, h3⟩ := h
  refine ⟨h0, fun hc => ?_, h2, fun hx => ?_⟩
  · obtain ⟨a, b, c⟩ := h1 hc
    exact ⟨a, b, c⟩
  · obtain ⟨a, b, c, -⟩ := h3 hx
    exact ⟨a, b, c⟩

end single

/-! ### brpls -/

section brpls
variable {W B P : Type} (solve : W → B) (rule : B → P → W × Bool) (conv : Option B → B → Bool)

/-- the returned baseline, if it is the result of a solve, was solved with `baseline_weights` -/
def BrOk (s : BrSt W B) : Prop := s.b = none ∨ s.b = some (solve s.bw)

theorem brInner_inv (beta : P) (i r j : Nat) (s : BrSt W B) (h : BrOk solve s) (h0 : i = 0 ∧ j = 0 → s.wa = s.bw) :
    BrOk solve (brInner solve rule conv beta i r j s).1 := by
  induction r generalizing j s with
  | zero =>
    unfold brInner
    simp only []
    split
    · exact h
    · split
      · split
        · next hij => right; show some (solve s.wa) = some (solve s.bw); rw [h0 hij]
        · exact h
      · right; rfl
  | succ r ih =>
    unfold brInner
    simp only []
    split
    · exact h
    · split
      · split
        · next hij => right; show some (solve s.wa) = some (solve s.bw); rw [h0 hij]
        · exact h
      · exact ih (j + 1) _ (Or.inr rfl) (fun hh => absurd hh.2 (Nat.succ_ne_zero j))

/-- once a baseline has been taken from a solve it stays one; and the first pass takes one unless the rule exits at once -/
theorem brInner_some (beta : P) (i r j : Nat) (s : BrSt W B) :
    (s.b.isSome → (brInner solve rule conv beta i r j s).1.b.isSome) ∧
    (i = 0 ∧ j = 0 → (rule (solve s.wa) beta).2 = false → (brInner solve rule conv beta i r j s).1.b.isSome) := by
  induction r generalizing j s with
  | zero =>
    unfold brInner
    simp only []
    by_cases he : (rule (solve s.wa) beta).2 = true
    · simp [he]
    · have he' : (rule (solve s.wa) beta).2 = false := by simpa using he
      simp only [he', Bool.false_eq_true, if_false]
      by_cases hc : conv s.b (solve s.wa) = true
      · simp only [hc, if_true]
        by_cases hij : i = 0 ∧ j = 0
        · simp [hij]
        · simp only [hij, if_false]
          exact ⟨fun h => h, fun h => h.elim⟩
      · simp [hc]
  | succ r ih =>
    unfold brInner
    simp only []
    by_cases he : (rule (solve s.wa) beta).2 = true
    · simp [he]
    · have he' : (rule (solve s.wa) beta).2 = false := by simpa using he
      simp only [he', Bool.false_eq_true, if_false]
      by_cases hc : conv s.b (solve s.wa) = true
      · simp only [hc, if_true]
        by_cases hij : i = 0 ∧ j = 0
        · simp [hij]
        · simp only [hij, if_false]
          exact ⟨fun h => h, fun h => h.elim⟩
      · simp only [hc, Bool.false_eq_true, if_false]
        have := (ih (j + 1) { wa := (rule (solve s.wa) beta).1, b := some (solve s.wa), bw := s.wa }).1 rfl
        exact ⟨fun _ => this, fun _ _ => this⟩

variable (crit : P → W → Bool → Bool) (nextBeta : W → P) (maxIter : Nat)

theorem brOuter_inv (R i : Nat) (beta : P) (s : BrSt W B) (h : BrOk solve s) (h0 : i = 0 → s.wa = s.bw) :
    BrOk solve (brOuter solve rule conv crit nextBeta maxIter R i beta s) := by
  induction R generalizing i beta s with
  | zero =>
    unfold brOuter
    simp only []
    have := brInner_inv solve rule conv beta i maxIter 0 s h (fun hh => h0 hh.1)
    split <;> exact this
  | succ R ih =>
    unfold brOuter
    simp only []
    have := brInner_inv solve rule conv beta i maxIter 0 s h (fun hh => h0 hh.1)
    split
    · exact this
    · exact ih (i + 1) _ _ this (fun hh => absurd hh (Nat.succ_ne_zero i))

theorem brOuter_some (R i : Nat) (beta : P) (s : BrSt W B) :
    (s.b.isSome → (brOuter solve rule conv crit nextBeta maxIter R i beta s).b.isSome) ∧
    (i = 0 → (rule (solve s.wa) beta).2 = false → (brOuter solve rule conv crit nextBeta maxIter R i beta s).b.isSome) := by
  induction R generalizing i beta s with
  | zero =>
    unfold brOuter
    simp only []
    have := brInner_some solve rule conv beta i maxIter 0 s
    constructor
    · intro hs; split <;> exact this.1 hs
    · intro hi he; split <;> exact this.2 ⟨hi, rfl⟩ he
  | succ R ih =>
    unfold brOuter
    simp only []
    have := brInner_some solve rule conv beta i maxIter 0 s
    constructor
    · intro hs
      split
      · exact this.1 hs
      · exact (ih (i + 1) _ _).1 (this.1 hs)
    · intro hi he
      split
      · exact this.2 ⟨hi, rfl⟩ he
      · exact (ih (i + 1) _ _).1 (this.2 ⟨hi, rfl⟩ he)

theorem brRun_pair (maxIter2 : Nat) (beta0 : P) (w0 : W) :
    let r := brRun solve rule conv crit nextBeta maxIter maxIter2 beta0 w0
    (r.1 = none ∨ r.1 = some (solve r.2)) ∧ ((rule (solve w0) beta0).2 = false → r.1 = some (solve r.2)) := by
  intro r
  have h1 := brOuter_inv solve rule conv crit nextBeta maxIter maxIter2 0 beta0 { wa := w0, b := none, bw := w0 } (Or.inl rfl) (fun _ => rfl)
  have h2 := (brOuter_some solve rule conv crit nextBeta maxIter maxIter2 0 beta0 { wa := w0, b := none, bw := w0 }).2 rfl
  refine ⟨h1, fun he => ?_⟩
  rcases h1 with h | h
  · have := h2 he
    rw [h] at this
    exact absurd this (by simp)
  · exact h

end brpls

/-! ### jbcd -/

section jbcd
variable {Sg V P : Type} (solveS : P → V → Sg) (solveB : P → Sg → V) (crit : Sg → Sg → V → V → Bool) (gm bm : P → P)

theorem jbRun_spec (g0 b0 : P) (r k : Nat) (s : JbSt Sg V P) (last : Option (V × Sg × P × P))
    (hg : s.gamma = gm^[k] g0) (hb : s.beta = bm^[k] b0) :
    let res := jbRun solveS solveB crit gm bm r k s last
    k ≤ res.2.1 ∧ res.2.1 ≤ k + r ∧ (0 < r → res.1.isSome ∧ k + 1 ≤ res.2.1) ∧ (r = 0 → res.1 = last) ∧
    (0 < r → ∀ v sg g b, res.1 = some (v, sg, g, b) → g = gm^[res.2.1 - 1] g0 ∧ b = bm^[res.2.1 - 1] b0 ∧ v = solveB b sg) := by
  induction r generalizing k s last with
  | zero =>
    simp only [jbRun]
    exact ⟨Nat.le_refl _, Nat.le_refl _, fun h => absurd h (Nat.lt_irrefl 0), fun _ => by trivial, fun h => absurd h (Nat.lt_irrefl 0)⟩
  | succ r ih =>
    simp only [jbRun]
    by_cases hc : crit s.sOld (solveS s.gamma s.vOld) s.vOld (solveB s.beta (solveS s.gamma s.vOld)) = true
    · simp only [hc, if_true]
      refine ⟨by omega, by omega, fun _ => ⟨rfl, Nat.le_refl _⟩, fun h => by omega, fun _ v sg g b h => ?_⟩
      simp only [Option.some.injEq, Prod.mk.injEq] at h
      obtain ⟨rfl, rfl, rfl, rfl⟩ := h
      rw [Nat.add_sub_cancel]
      exact ⟨hg, hb, rfl⟩
    · simp only [hc, Bool.false_eq_true, if_false]
      have := ih (k + 1) { sOld := solveS s.gamma s.vOld, vOld := solveB s.beta (solveS s.gamma s.vOld), gamma := gm s.gamma, beta := bm s.beta }
        (some (solveB s.beta (solveS s.gamma s.vOld), solveS s.gamma s.vOld, s.gamma, s.beta))
        (by rw [Function.iterate_succ_apply', ← hg]) (by rw [Function.iterate_succ_apply', ← hb])
      obtain ⟨a1, a2, a3, a4, a5⟩ := this
      refine ⟨by omega, by omega, fun _ => ?_, fun h => by omega, fun _ v sg g b h => ?_⟩
      · by_cases hr : r = 0
        · rw [a4 hr]; exact ⟨rfl, by omega⟩
        · exact ⟨(a3 (by omega)).1, by omega⟩
      · by_cases hr : r = 0
        · rw [a4 hr] at h
          simp only [Option.some.injEq, Prod.mk.injEq] at h
          obtain ⟨rfl, rfl, rfl, rfl⟩ := h
          subst hr
          have e : (jbRun solveS solveB crit gm bm 0 (k + 1) { sOld := solveS s.gamma s.vOld, vOld := solveB s.beta (solveS s.gamma s.vOld), gamma := gm s.gamma, beta := bm s.beta }
              (some (solveB s.beta (solveS s.gamma s.vOld), solveS s.gamma s.vOld, s.gamma, s.beta))).2.1 = k + 1 := rfl
          rw [e, Nat.add_sub_cancel]
          exact ⟨hg, hb, rfl⟩
        · exact a5 (by omega) v sg g b h

theorem jbRun_top (budget : Nat) (hb : 0 < budget) (s : JbSt Sg V P) :
    1 ≤ (jbRun solveS solveB crit gm bm budget 0 s none).2.1 ∧ (jbRun solveS solveB crit gm bm budget 0 s none).2.1 ≤ budget ∧
    ∃ v sg, (jbRun solveS solveB crit gm bm budget 0 s none).1
        = some (v, sg, gm^[(jbRun solveS solveB crit gm bm budget 0 s none).2.1 - 1] s.gamma,
                 bm^[(jbRun solveS solveB crit gm bm budget 0 s none).2.1 - 1] s.beta) ∧
      v = solveB (bm^[(jbRun solveS solveB crit gm bm budget 0 s none).2.1 - 1] s.beta) sg := by
  have h := jbRun_spec solveS solveB crit gm bm s.gamma s.beta budget 0 s none rfl rfl
  simp only [Nat.zero_add] at h
  obtain ⟨-, h2, h3, -, h5⟩ := h
  obtain ⟨hs, hl⟩ := h3 hb
  obtain ⟨⟨v, sg, g, b⟩, hv⟩ := Option.isSome_iff_exists.mp hs
  obtain ⟨e1, e2, e3⟩ := h5 hb v sg g b hv
  refine ⟨hl, h2, v, sg, ?_, ?_⟩
  · rw [hv, e1, e2]
  · rw [e3, e2]

end jbcd

end PbVerif.Lemmas
