import PbVerif.Lemmas.Whittaker
import Mathlib.Tactic.Linarith
/-! Lemmas for C06: the two banded systems of jbcd. -/
set_option linter.unusedVariables false
namespace PbVerif.Lemmas
open PbVerif.Banded PbVerif.Whittaker

theorem jbcd_asm_den_lower (n d : Nat) (c diag : Rat) (i j : Nat) (hi : i < n) (hj : j < n) :
    denLower (asmJbcd n d c diag true false) i j = docJbcd n d c diag i j := by
  show denLower (addRowC (scale c (scale 1 (bandsQ n d true))) 0 diag) i j = _
  have hs := shape_scale c _ _ _ (shape_scale 1 _ _ _ (shape_bandsQ_lower n d))
  rw [denLower_eq, ent_addRowC _ _ _ (d + 1) n _ _ hs, ent_scale, ent_scale, ent_bandsQ_lower_eq n d i j hi hj]
  unfold docJbcd delta
  by_cases h : i = j
  · subst h
    rw [if_pos ⟨by omega, by omega, by omega⟩, if_pos rfl]; ring
  · rw [if_neg (by omega), if_neg h]; ring

theorem jbcd_asm_den_full (n d : Nat) (c diag : Rat) (i j : Nat) (hi : i < n) (hj : j < n) :
    denFull (asmJbcd n d c diag false false) d i j = docJbcd n d c diag i j := by
  show denFull (addRowC (scale c (scale 1 (bandsQ n d false))) d diag) d i j = _
  have hs := shape_scale c _ _ _ (shape_scale 1 _ _ _ (shape_bandsQ_full n d))
  rw [denFull_eq, (shape_addRowC _ d diag _ _ hs).1]
  unfold docJbcd delta
  by_cases h : j ≤ i + d ∧ d + i - j < 2 * d + 1
  · rw [if_pos h, ent_addRowC _ _ _ _ n _ _ hs, ent_scale, ent_scale, ent_bandsQ_full_eq n d i j hi hj h.1 (by omega)]
    by_cases h2 : i = j
    · subst h2
      rw [if_pos ⟨by omega, by omega, hi⟩, if_pos rfl]; ring
    · rw [if_neg (by omega), if_neg h2]; ring
  · rw [if_neg h, if_neg (by omega), dtdQ_band n d i j (by omega)]; ring

/-- under pentapy the reversed array is the non-reversed one upside down (row-wise storage of a symmetric matrix) -/
theorem jbcd_asm_reversed (n d : Nat) (c diag : Rat) :
    (asmJbcd n d c diag false true).reverse = asmJbcd n d c diag false false := by
  show (addRowC (scale c (scale 1 (bandsQ n d false))).reverse d diag).reverse = addRowC (scale c (scale 1 (bandsQ n d false))) d diag
  have hl : (scale c (scale 1 (bandsQ n d false))).length = 2 * d + 1 :=
    (shape_scale c _ _ _ (shape_scale 1 _ _ _ (shape_bandsQ_full n d))).1
  unfold addRowC
  rw [reverse_modify_reverse _ _ _ (by omega), hl]
  congr 1; omega

theorem int_sum_map_zero {α} (l : List α) (f : α → Int) (h : ∀ p ∈ l, f p = 0) : (l.map f).sum = 0 := by
  induction l with
  | nil => rfl
  | cons a l ih =>
    rw [List.map_cons, List.sum_cons, h a (by simp), ih (fun p hp => h p (by simp [hp]))]; simp

theorem coef_zero_sq (d : Nat) : coef d 0 * coef d 0 = 1 := by
  induction d with
  | zero => rfl
  | succ d ih => simp only [coef]; rw [neg_mul_neg, ih]

/-- the corner of the penalty: `(D'D)[0,0] = 1` for every order `d < n` -/
theorem dtdQ_corner (n d : Nat) (h : d < n) : dtdQ n d 0 0 = 1 := by
  unfold dtdQ
  have e := dtdOff_eq_DtD n d 0 0 (by omega)
  rw [Nat.add_zero] at e
  rw [← e]
  unfold dtdOff
  rw [List.range_succ_eq_map, List.map_cons, List.sum_cons, List.map_map]
  have z : ((List.range d).map ((fun m => if m ≤ 0 ∧ 0 - m + d < n ∧ m + 0 ≤ d then coef d m * coef d (m + 0) else 0) ∘ Nat.succ)).sum = 0 := by
    apply int_sum_map_zero
    intro a _
    simp
  rw [z, if_pos ⟨by omega, by omega, by omega⟩, coef_zero_sq]; simp

/-- **the signal system as coded is NOT the documented one**: docs/algorithms/morphological.rst states `(I + 2γ D'D) s = y − v` (which is
also the stationarity condition of the documented objective), the code assembles `I + γ D'D`; they differ for every `γ ≠ 0`, `d < n` -/
theorem jbcd_signal_ne_documented (n d : Nat) (g : Rat) (hg : g ≠ 0) (h : d < n) :
    docJbcd n d g 1 0 0 ≠ docJbcd n d (2 * g) 1 0 0 := by
  unfold docJbcd delta
  rw [dtdQ_corner n d h]
  simp only [if_true]
  intro hh
  apply hg
  linarith

end PbVerif.Lemmas
