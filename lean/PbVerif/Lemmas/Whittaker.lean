import PbVerif.Model.Whittaker
import PbVerif.Lemmas.Banded
import Mathlib.Tactic.Ring
import Mathlib.Algebra.Order.Field.Rat
/-! Lemmas for C06: every banded assembly denotes the documented matrix. -/
set_option linter.unusedVariables false
namespace PbVerif.Lemmas
open PbVerif.Banded PbVerif.Whittaker

/-- entry (r, c) of a band table, zero outside -/
def ent (ab : List (List Rat)) (r c : Nat) : Rat := (ab.getD r []).getD c 0

/-- all R rows have length n -/
def TblShape (ab : List (List Rat)) (R n : Nat) : Prop :=
  ab.length = R ∧ ∀ r, r < R → (ab.getD r []).length = n

theorem getD_map_range {α} (a k : Nat) (f : Nat → α) (dflt : α) :
    ((List.range a).map f).getD k dflt = if k < a then f k else dflt := by
  simp only [List.getD_eq_getElem?_getD, List.getElem?_map]
  by_cases h : k < a
  · rw [List.getElem?_range h, if_pos h]; rfl
  · rw [List.getElem?_eq_none (by simpa using h), if_neg h]; rfl

theorem getD_map' {α β} (l : List α) (f : α → β) (k : Nat) (d : α) (e : β) (h : f d = e) :
    (l.map f).getD k e = f (l.getD k d) := by
  simp only [List.getD_eq_getElem?_getD, List.getElem?_map]
  cases l[k]? <;> simp [h]

theorem getD_oob {α} (l : List α) (k : Nat) (d : α) (h : l.length ≤ k) : l.getD k d = d := by
  simp only [List.getD_eq_getElem?_getD]
  rw [List.getElem?_eq_none h]; rfl

theorem getD_zipWith_mul (a b : List Rat) (k : Nat) :
    (List.zipWith (· * ·) a b).getD k 0 = a.getD k 0 * b.getD k 0 := by
  simp only [List.getD_eq_getElem?_getD, List.getElem?_zipWith]
  cases a[k]? <;> cases b[k]? <;> simp

theorem getD_zipWith_add (a b : List Rat) (k : Nat) (h : a.length = b.length) :
    (List.zipWith (· + ·) a b).getD k 0 = a.getD k 0 + b.getD k 0 := by
  simp only [List.getD_eq_getElem?_getD, List.getElem?_zipWith]
  by_cases hk : k < a.length
  · rw [List.getElem?_eq_getElem hk, List.getElem?_eq_getElem (h ▸ hk)]; simp
  · rw [List.getElem?_eq_none (by omega), List.getElem?_eq_none (by omega)]; simp

theorem getD_modify' {α} (l : List α) (d : α) (f : α → α) (i j : Nat) :
    (l.modify i f).getD j d = if i = j ∧ j < l.length then f (l.getD j d) else l.getD j d := by
  simp only [List.getD_eq_getElem?_getD, List.getElem?_modify]
  by_cases hj : j < l.length
  · simp only [List.getElem?_eq_getElem hj, hj, and_true]
    split <;> simp
  · simp only [hj, and_false, if_false]
    rw [List.getElem?_eq_none (by omega)]; rfl

theorem getD_reverse' {α} (l : List α) (d : α) (k : Nat) :
    l.reverse.getD k d = if k < l.length then l.getD (l.length - 1 - k) d else d := by
  simp only [List.getD_eq_getElem?_getD]
  by_cases hk : k < l.length
  · rw [List.getElem?_reverse hk, if_pos hk]
  · rw [List.getElem?_eq_none (by simp; omega), if_neg hk]; rfl

/-! ### entries of the basic operations -/

theorem ent_oob_row (ab : List (List Rat)) (r c : Nat) (h : ab.length ≤ r) : ent ab r c = 0 := by
  unfold ent; rw [getD_oob _ _ _ h]; rfl

theorem ent_oob_col (ab : List (List Rat)) (R n r c : Nat) (hs : TblShape ab R n) (h : n ≤ c) : ent ab r c = 0 := by
  by_cases hr : r < R
  · unfold ent; rw [getD_oob _ _ _ (by rw [hs.2 r hr]; exact h)]
  · exact ent_oob_row _ _ _ (by rw [hs.1]; omega)

theorem ent_scale (c : Rat) (ab : List (List Rat)) (r k : Nat) : ent (scale c ab) r k = c * ent ab r k := by
  unfold ent scale
  rw [getD_map' ab _ r [] [] rfl, getD_map' _ _ k 0 0 (by simp)]

theorem shape_scale (c : Rat) (ab : List (List Rat)) (R n : Nat) (h : TblShape ab R n) : TblShape (scale c ab) R n := by
  refine ⟨by simp [scale, h.1], fun r hr => ?_⟩
  unfold scale
  rw [getD_map' ab _ r [] [] rfl, List.length_map, h.2 r hr]

theorem ent_colScale (ab : List (List Rat)) (w : List Rat) (r k : Nat) :
    ent (colScale ab w) r k = ent ab r k * w.getD k 0 := by
  unfold ent colScale
  rw [getD_map' ab _ r [] [] rfl, getD_zipWith_mul]

theorem shape_colScale (ab : List (List Rat)) (w : List Rat) (R n : Nat) (h : TblShape ab R n) (hw : w.length = n) :
    TblShape (colScale ab w) R n := by
  refine ⟨by simp [colScale, h.1], fun r hr => ?_⟩
  unfold colScale
  rw [getD_map' ab _ r [] [] rfl, List.length_zipWith, h.2 r hr, hw]; omega

theorem ent_addB (a b : List (List Rat)) (R n r k : Nat) (ha : TblShape a R n) (hb : TblShape b R n) :
    ent (addB a b) r k = ent a r k + ent b r k := by
  unfold ent addB
  by_cases hr : r < R
  · have e : (List.zipWith (List.zipWith (· + ·)) a b).getD r [] = List.zipWith (· + ·) (a.getD r []) (b.getD r []) := by
      simp only [List.getD_eq_getElem?_getD, List.getElem?_zipWith]
      rw [List.getElem?_eq_getElem (by rw [ha.1]; exact hr), List.getElem?_eq_getElem (by rw [hb.1]; exact hr)]; simp
    rw [e, getD_zipWith_add _ _ _ (by rw [ha.2 r hr, hb.2 r hr])]
  · rw [getD_oob _ r _ (by simp [ha.1, hb.1]; omega), getD_oob a r _ (by rw [ha.1]; omega),
      getD_oob b r _ (by rw [hb.1]; omega)]; simp

theorem shape_addB (a b : List (List Rat)) (R n : Nat) (ha : TblShape a R n) (hb : TblShape b R n) :
    TblShape (addB a b) R n := by
  refine ⟨by simp [addB, ha.1, hb.1], fun r hr => ?_⟩
  unfold addB
  have e : (List.zipWith (List.zipWith (· + ·)) a b).getD r [] = List.zipWith (· + ·) (a.getD r []) (b.getD r []) := by
    simp only [List.getD_eq_getElem?_getD, List.getElem?_zipWith]
    rw [List.getElem?_eq_getElem (by rw [ha.1]; exact hr), List.getElem?_eq_getElem (by rw [hb.1]; exact hr)]; simp
  rw [e, List.length_zipWith, ha.2 r hr, hb.2 r hr]; omega

theorem ent_addRow (ab : List (List Rat)) (k : Nat) (w : List Rat) (R n r c : Nat) (h : TblShape ab R n) (hw : w.length = n) :
    ent (addRow ab k w) r c = if r = k ∧ r < R then ent ab r c + w.getD c 0 else ent ab r c := by
  unfold ent addRow
  rw [getD_modify', h.1]
  by_cases hk : r = k ∧ r < R
  · rw [if_pos ⟨hk.1.symm, hk.2⟩, if_pos hk, getD_zipWith_add _ _ _ (by rw [h.2 r hk.2, hw])]
  · rw [if_neg (by omega), if_neg hk]

theorem shape_addRow (ab : List (List Rat)) (k : Nat) (w : List Rat) (R n : Nat) (h : TblShape ab R n) (hw : w.length = n) :
    TblShape (addRow ab k w) R n := by
  refine ⟨by simp [addRow, h.1], fun r hr => ?_⟩
  unfold addRow
  rw [getD_modify']
  split
  · rw [List.length_zipWith, h.2 r hr, hw]; omega
  · exact h.2 r hr

theorem ent_addRowC (ab : List (List Rat)) (k : Nat) (c0 : Rat) (R n r c : Nat) (h : TblShape ab R n) :
    ent (addRowC ab k c0) r c = if r = k ∧ r < R ∧ c < n then ent ab r c + c0 else ent ab r c := by
  unfold ent addRowC
  rw [getD_modify', h.1]
  by_cases hk : r = k ∧ r < R
  · rw [if_pos ⟨hk.1.symm, hk.2⟩]
    by_cases hc : c < n
    · rw [if_pos ⟨hk.1, hk.2, hc⟩]
      have hl : c < (ab.getD r []).length := by rw [h.2 r hk.2]; exact hc
      simp only [List.getD_eq_getElem?_getD, List.getElem?_map] at hl ⊢
      rw [List.getElem?_eq_getElem hl]; simp
    · rw [if_neg (by omega), getD_oob _ c _ (by rw [List.length_map, h.2 r hk.2]; omega),
        getD_oob _ c _ (by rw [h.2 r hk.2]; omega)]
  · rw [if_neg (by omega), if_neg (by omega)]

theorem shape_addRowC (ab : List (List Rat)) (k : Nat) (c0 : Rat) (R n : Nat) (h : TblShape ab R n) :
    TblShape (addRowC ab k c0) R n := by
  refine ⟨by simp [addRowC, h.1], fun r hr => ?_⟩
  unfold addRowC
  rw [getD_modify']
  split
  · rw [List.length_map, h.2 r hr]
  · exact h.2 r hr

theorem ent_reverse (ab : List (List Rat)) (R r c : Nat) (h : ab.length = R) :
    ent ab.reverse r c = if r < R then ent ab (R - 1 - r) c else 0 := by
  unfold ent
  rw [getD_reverse', h]
  split <;> rfl

theorem shape_reverse (ab : List (List Rat)) (R n : Nat) (h : TblShape ab R n) : TblShape ab.reverse R n := by
  refine ⟨by simp [h.1], fun r hr => ?_⟩
  rw [getD_reverse', h.1, if_pos hr]
  exact h.2 _ (by omega)


theorem getD_append' {α} (a b : List α) (k : Nat) (d : α) :
    (a ++ b).getD k d = if k < a.length then a.getD k d else b.getD (k - a.length) d := by
  simp only [List.getD_eq_getElem?_getD]
  by_cases h : k < a.length
  · rw [List.getElem?_append_left h, if_pos h]
  · rw [List.getElem?_append_right (by omega), if_neg h]

theorem getD_replicate' {α} (m k : Nat) (a d : α) :
    (List.replicate m a).getD k d = if k < m then a else d := by
  simp only [List.getD_eq_getElem?_getD, List.getElem?_replicate]
  split <;> rfl

theorem ent_zero_rows (p n r c : Nat) : ent (List.replicate p (List.replicate n (0:Rat))) r c = 0 := by
  unfold ent
  rw [getD_replicate']
  split
  · rw [getD_replicate']; split <;> rfl
  · rfl

theorem ent_append (a b : List (List Rat)) (r c : Nat) :
    ent (a ++ b) r c = if r < a.length then ent a r c else ent b (r - a.length) c := by
  unfold ent; rw [getD_append']; split <;> rfl

theorem ent_padLower (ab : List (List Rat)) (p n r c : Nat) : ent (padLower ab p n) r c = ent ab r c := by
  unfold padLower
  rw [ent_append]
  split
  · rfl
  · rw [ent_zero_rows, ent_oob_row _ _ _ (by omega)]

theorem ent_padFull (ab : List (List Rat)) (p n r c : Nat) :
    ent (padFull ab p n) r c = if p ≤ r then ent ab (r - p) c else 0 := by
  unfold padFull
  rw [List.append_assoc, ent_append, List.length_replicate]
  by_cases h : r < p
  · rw [if_pos h, if_neg (by omega), ent_zero_rows]
  · rw [if_neg h, if_pos (by omega), ent_append]
    split
    · rfl
    · rw [ent_zero_rows, ent_oob_row _ _ _ (by omega)]

theorem shape_zero_rows (p n : Nat) : TblShape (List.replicate p (List.replicate n (0:Rat))) p n := by
  refine ⟨by simp, fun r hr => ?_⟩
  rw [getD_replicate', if_pos hr]; simp

theorem shape_append (a b : List (List Rat)) (R S n : Nat) (ha : TblShape a R n) (hb : TblShape b S n) :
    TblShape (a ++ b) (R + S) n := by
  refine ⟨by simp [ha.1, hb.1], fun r hr => ?_⟩
  rw [getD_append', ha.1]
  split
  · exact ha.2 r (by assumption)
  · exact hb.2 _ (by omega)

theorem shape_padLower (ab : List (List Rat)) (p n R : Nat) (h : TblShape ab R n) : TblShape (padLower ab p n) (R + p) n :=
  shape_append _ _ _ _ _ h (shape_zero_rows p n)

theorem shape_padFull (ab : List (List Rat)) (p n R : Nat) (h : TblShape ab R n) : TblShape (padFull ab p n) (p + R + p) n :=
  shape_append _ _ _ _ _ (shape_append _ _ _ _ _ (shape_zero_rows p n) h) (shape_zero_rows p n)

/-! ### row shifts -/

theorem getD_shiftLeftQ (s : Nat) (row : List Rat) (c : Nat) :
    (shiftLeftQ s row).getD c 0 = row.getD (c + s) 0 := by
  unfold shiftLeftQ
  rw [getD_append', List.length_drop]
  by_cases h : c < row.length - s
  · rw [if_pos h]
    simp only [List.getD_eq_getElem?_getD, List.getElem?_drop]
    rw [Nat.add_comm]
  · rw [if_neg h, getD_replicate', getD_oob row _ _ (by omega)]
    split <;> rfl

theorem getD_shiftRightQ (s : Nat) (row : List Rat) (c : Nat) :
    (shiftRightQ s row).getD c 0 = if c < s ∨ row.length ≤ c then 0 else row.getD (c - s) 0 := by
  unfold shiftRightQ
  rw [getD_append', List.length_replicate]
  by_cases h : c < min s row.length
  · rw [if_pos h, getD_replicate', if_pos h, if_pos (by omega)]
  · rw [if_neg h]
    by_cases h2 : row.length ≤ c
    · rw [if_pos (Or.inr h2), getD_oob _ _ _ (by rw [List.length_take]; omega)]
    · rw [if_neg (by omega)]
      have e : min s row.length = s := by omega
      rw [e]
      simp only [List.getD_eq_getElem?_getD]
      rw [List.getElem?_take_of_lt (by omega)]

theorem length_shiftLeftQ (s : Nat) (row : List Rat) : (shiftLeftQ s row).length = row.length := by
  simp [shiftLeftQ]; omega
theorem length_shiftRightQ (s : Nat) (row : List Rat) : (shiftRightQ s row).length = row.length := by
  simp [shiftRightQ]; omega

theorem getD_shiftRows (ab : List (List Rat)) (u l r : Nat) (hr : r < ab.length) :
    (shiftRows ab u l).getD r [] =
      if r < u then shiftRightQ (u - r) (ab.getD r [])
      else if ab.length - l ≤ r then shiftLeftQ (r + 1 - (ab.length - l)) (ab.getD r [])
      else ab.getD r [] := by
  unfold shiftRows
  simp only [List.getD_eq_getElem?_getD, List.getElem?_map, List.getElem?_zipIdx]
  rw [List.getElem?_eq_getElem hr]
  simp

theorem length_shiftRows (ab : List (List Rat)) (u l : Nat) : (shiftRows ab u l).length = ab.length := by
  simp [shiftRows]

theorem shape_shiftRows (ab : List (List Rat)) (u l R n : Nat) (h : TblShape ab R n) : TblShape (shiftRows ab u l) R n := by
  refine ⟨by rw [length_shiftRows, h.1], fun r hr => ?_⟩
  rw [getD_shiftRows _ _ _ _ (by rw [h.1]; exact hr)]
  split
  · rw [length_shiftRightQ]; exact h.2 r hr
  · split
    · rw [length_shiftLeftQ]; exact h.2 r hr
    · exact h.2 r hr

/-- entries of `shiftRows ab d d` for a table with 2d+1 rows of length n -/
theorem ent_shiftRows (ab : List (List Rat)) (d n r c : Nat) (h : TblShape ab (2 * d + 1) n) (hr : r ≤ 2 * d) (hc : c < n) :
    ent (shiftRows ab d d) r c =
      if r < d then (if c < d - r then 0 else ent ab r (c - (d - r))) else ent ab r (c + (r - d)) := by
  unfold ent
  rw [getD_shiftRows _ _ _ _ (by rw [h.1]; omega), h.1]
  by_cases h1 : r < d
  · rw [if_pos h1, if_pos h1, getD_shiftRightQ, h.2 r (by omega)]
    by_cases h2 : c < d - r
    · rw [if_pos (Or.inl h2), if_pos h2]
    · rw [if_neg (by omega), if_neg h2]
  · rw [if_neg h1, if_neg h1]
    by_cases h2 : r = d
    · rw [if_neg (by omega)]; subst h2; simp
    · rw [if_pos (by omega), getD_shiftLeftQ]
      congr 1; omega


/-! ### the penalty bands -/

theorem ent_bandsQ_lower (n d r c : Nat) :
    ent (bandsQ n d true) r c = if r ≤ d ∧ c < n then ((specLower n d r c : Int) : Rat) else 0 := by
  unfold ent bandsQ specRows
  simp only [if_true]
  rw [getD_map' _ _ r [] [] rfl, getD_map_range, getD_map' _ _ c 0 0 (by simp)]
  by_cases hr : r < d + 1
  · rw [if_pos hr, getD_map_range]
    by_cases hc : c < n
    · rw [if_pos hc, if_pos ⟨by omega, hc⟩]
    · rw [if_neg hc, if_neg (by omega)]; simp
  · rw [if_neg hr, if_neg (by omega)]; simp

theorem ent_bandsQ_full (n d r c : Nat) :
    ent (bandsQ n d false) r c = if r ≤ 2 * d ∧ c < n then ((specFull n d r c : Int) : Rat) else 0 := by
  unfold ent bandsQ specRows
  simp only [Bool.false_eq_true, if_false]
  rw [getD_map' _ _ r [] [] rfl, getD_map_range, getD_map' _ _ c 0 0 (by simp)]
  by_cases hr : r < 2 * d + 1
  · rw [if_pos hr, getD_map_range]
    by_cases hc : c < n
    · rw [if_pos hc, if_pos ⟨by omega, hc⟩]
    · rw [if_neg hc, if_neg (by omega)]; simp
  · rw [if_neg hr, if_neg (by omega)]; simp

theorem shape_bandsQ_lower (n d : Nat) : TblShape (bandsQ n d true) (d + 1) n := by
  refine ⟨by simp [bandsQ, specRows], fun r hr => ?_⟩
  unfold bandsQ specRows
  simp only [if_true]
  rw [getD_map' _ _ r [] [] rfl, getD_map_range, if_pos hr]; simp

theorem shape_bandsQ_full (n d : Nat) : TblShape (bandsQ n d false) (2 * d + 1) n := by
  refine ⟨by simp [bandsQ, specRows], fun r hr => ?_⟩
  unfold bandsQ specRows
  simp only [Bool.false_eq_true, if_false]
  rw [getD_map' _ _ r [] [] rfl, getD_map_range, if_pos hr]; simp

/-- `D'D` vanishes outside the band (both sides) -/
theorem DtD_band' (n d i j : Nat) (h : i + d < j ∨ j + d < i) : DtD n d i j = 0 := by
  rcases h with h | h
  · exact DtD_band n d i j h
  · rw [DtD_symm]; exact DtD_band n d j i h

theorem specLower_eq (n d r c : Nat) (h : c + r < n) : specLower n d r c = DtD n d (c + r) c := by
  unfold specLower
  rw [if_pos h, dtdOff_eq_DtD n d c r h, DtD_symm]

/-- the full-storage entry that LAPACK reads for `A[i,j]` is `(D'D)[i,j]` -/
theorem specFull_eq (n d i j : Nat) (hi : i < n) (hj : j < n) (h1 : j ≤ i + d) (h2 : i ≤ j + d) :
    specFull n d (d + i - j) j = DtD n d i j := by
  unfold specFull
  by_cases h : j ≤ i
  · rw [if_pos (by omega), specLower_eq n d _ j (by omega)]
    congr 1; omega
  · rw [if_neg (by omega), if_pos (by omega), dtdOff_eq_DtD n d _ _ (by omega)]
    congr 1 <;> omega

theorem ent_bandsQ_full_eq (n d i j : Nat) (hi : i < n) (hj : j < n) (h1 : j ≤ i + d) (h2 : i ≤ j + d) :
    ent (bandsQ n d false) (d + i - j) j = dtdQ n d i j := by
  rw [ent_bandsQ_full, if_pos ⟨by omega, hj⟩, specFull_eq n d i j hi hj h1 h2]; rfl

theorem dtdQ_symm (n d i j : Nat) : dtdQ n d i j = dtdQ n d j i := by
  unfold dtdQ; rw [DtD_symm]

theorem dtdQ_band (n d i j : Nat) (h : i + d < j ∨ j + d < i) : dtdQ n d i j = 0 := by
  unfold dtdQ; rw [DtD_band' n d i j h]; rfl

/-- the fast offset form is the dense `D'D` -/
theorem dtdFastQ_eq (n d i j : Nat) (hi : i < n) (hj : j < n) : dtdFastQ n d i j = dtdQ n d i j := by
  unfold dtdFastQ dtdQ
  by_cases h : i ≤ j
  · rw [if_pos h, dtdOff_eq_DtD n d i (j - i) (by omega)]
    have e : i + (j - i) = j := by omega
    rw [e]
  · rw [if_neg h, dtdOff_eq_DtD n d j (i - j) (by omega), DtD_symm]
    have e : j + (i - j) = i := by omega
    rw [e]

theorem denLower_eq (ab : List (List Rat)) (i j : Nat) : denLower ab i j = ent ab (max i j - min i j) (min i j) := rfl
theorem denFull_eq (ab : List (List Rat)) (u i j : Nat) :
    denFull ab u i j = if j ≤ i + u ∧ u + i - j < ab.length then ent ab (u + i - j) j else 0 := rfl

/-- lower-storage entry read for `A[i,j]` -/
theorem ent_bandsQ_lower_eq (n d i j : Nat) (hi : i < n) (hj : j < n) :
    ent (bandsQ n d true) (max i j - min i j) (min i j) = dtdQ n d i j := by
  rw [ent_bandsQ_lower]
  by_cases hb : max i j - min i j ≤ d
  · rw [if_pos ⟨hb, by omega⟩, specLower_eq n d _ _ (by omega)]
    unfold dtdQ
    by_cases h : j ≤ i
    · have e1 : min i j + (max i j - min i j) = i := by omega
      have e2 : min i j = j := by omega
      rw [e1, e2]
    · have e1 : min i j + (max i j - min i j) = j := by omega
      have e2 : min i j = i := by omega
      rw [e1, e2, DtD_symm]
  · rw [if_neg (by omega), dtdQ_band n d i j (by omega)]

/-- lower storage of `bandsQ` denotes `D'D` -/
theorem denLower_bandsQ (n d i j : Nat) (hi : i < n) (hj : j < n) :
    denLower (bandsQ n d true) i j = dtdQ n d i j := by
  rw [denLower_eq, ent_bandsQ_lower_eq n d i j hi hj]

/-- full storage of `bandsQ` denotes `D'D` -/
theorem denFull_bandsQ (n d i j : Nat) (hi : i < n) (hj : j < n) :
    denFull (bandsQ n d false) d i j = dtdQ n d i j := by
  rw [denFull_eq, (shape_bandsQ_full n d).1]
  by_cases h : j ≤ i + d ∧ d + i - j < 2 * d + 1
  · rw [if_pos h, ent_bandsQ_full_eq n d i j hi hj h.1 (by omega)]
  · rw [if_neg h, dtdQ_band n d i j (by omega)]


/-! ### the standard system -/

theorem std_asm_den_lower (n d : Nat) (lam : Rat) (w : List Rat) (hw : w.length = n) (i j : Nat) (hi : i < n) (hj : j < n) :
    denLower (asmStd n d lam w true false) i j = docStd n d lam w i j := by
  show denLower (addRow (scale lam (bandsQ n d true)) 0 w) i j = _
  rw [denLower_eq, ent_addRow _ _ _ (d + 1) n _ _ (shape_scale _ _ _ _ (shape_bandsQ_lower n d)) hw, ent_scale,
    ent_bandsQ_lower_eq n d i j hi hj]
  unfold docStd delta
  by_cases h : i = j
  · subst h
    rw [if_pos ⟨by omega, by omega⟩, if_pos rfl, Nat.min_self]; ring
  · rw [if_neg (by omega), if_neg h]; ring

theorem std_asm_den_full (n d : Nat) (lam : Rat) (w : List Rat) (hw : w.length = n) (i j : Nat) (hi : i < n) (hj : j < n) :
    denFull (asmStd n d lam w false false) d i j = docStd n d lam w i j := by
  show denFull (addRow (scale lam (bandsQ n d false)) d w) d i j = _
  have hs := shape_scale lam _ _ _ (shape_bandsQ_full n d)
  rw [denFull_eq, (shape_addRow _ d w _ _ hs hw).1]
  unfold docStd delta
  by_cases h : j ≤ i + d ∧ d + i - j < 2 * d + 1
  · rw [if_pos h, ent_addRow _ _ _ _ n _ _ hs hw, ent_scale, ent_bandsQ_full_eq n d i j hi hj h.1 (by omega)]
    by_cases h2 : i = j
    · subst h2
      rw [if_pos ⟨by omega, by omega⟩, if_pos rfl]; ring
    · rw [if_neg (by omega), if_neg h2]; ring
  · rw [if_neg h, if_neg (by omega), dtdQ_band n d i j (by omega)]; ring

theorem reverse_modify_reverse {α} (l : List α) (k : Nat) (f : α → α) (hk : k < l.length) :
    (l.reverse.modify k f).reverse = l.modify (l.length - 1 - k) f := by
  apply List.ext_getElem?
  intro i
  by_cases hi : i < l.length
  · rw [List.getElem?_reverse (by simpa using hi), List.getElem?_modify, List.getElem?_modify, List.length_modify,
      List.length_reverse, List.getElem?_reverse (by omega)]
    have e : l.length - 1 - (l.length - 1 - i) = i := by omega
    rw [e]
    by_cases h : k = l.length - 1 - i
    · have h' : l.length - 1 - k = i := by omega
      simp only [if_pos h, if_pos h']
    · have h' : ¬ l.length - 1 - k = i := by omega
      simp only [if_neg h, if_neg h']
  · rw [List.getElem?_eq_none (by simp; omega), List.getElem?_eq_none (by simp; omega)]

theorem std_asm_reversed (n d : Nat) (lam : Rat) (w : List Rat) :
    (asmStd n d lam w false true).reverse = asmStd n d lam w false false := by
  show (addRow (scale lam (bandsQ n d false)).reverse d w).reverse = addRow (scale lam (bandsQ n d false)) d w
  have hl : (scale lam (bandsQ n d false)).length = 2 * d + 1 := (shape_scale lam _ _ _ (shape_bandsQ_full n d)).1
  unfold addRow
  rw [reverse_modify_reverse _ _ _ (by omega), hl]
  congr 1; omega


/-! ### iasls -/

theorem getD_map_sq (w : List Rat) (c : Nat) : (w.map fun v => v * v).getD c 0 = w.getD c 0 * w.getD c 0 :=
  getD_map' w (fun v => v * v) c 0 0 (by simp)

theorem ent_padFull_D1 (n d i j : Nat) (hd : 1 ≤ d) (hi : i < n) (hj : j < n) (h1 : j ≤ i + d) (h2 : i ≤ j + d) :
    ent (padFull (bandsQ n 1 false) (d - 1) n) (d + i - j) j = dtdQ n 1 i j := by
  rw [ent_padFull]
  by_cases h : j ≤ i + 1
  · rw [if_pos (by omega)]
    have e : d + i - j - (d - 1) = 1 + i - j := by omega
    rw [e]
    by_cases h' : i ≤ j + 1
    · exact ent_bandsQ_full_eq n 1 i j hi hj h h'
    · rw [ent_bandsQ_full, if_neg (by omega), dtdQ_band n 1 i j (by omega)]
  · rw [if_neg (by omega), dtdQ_band n 1 i j (by omega)]

theorem shape_padLower_D1 (n d : Nat) (hd : 1 ≤ d) : TblShape (padLower (bandsQ n 1 true) (d - 1) n) (d + 1) n := by
  have h := shape_padLower _ (d - 1) n _ (shape_bandsQ_lower n 1)
  have e : 1 + 1 + (d - 1) = d + 1 := by omega
  rw [e] at h; exact h

theorem shape_padFull_D1 (n d : Nat) (hd : 1 ≤ d) : TblShape (padFull (bandsQ n 1 false) (d - 1) n) (2 * d + 1) n := by
  have h := shape_padFull _ (d - 1) n _ (shape_bandsQ_full n 1)
  have e : d - 1 + (2 * 1 + 1) + (d - 1) = 2 * d + 1 := by omega
  rw [e] at h; exact h

theorem iasls_asm_den_lower (n d : Nat) (lam lam1 : Rat) (w : List Rat) (hw : w.length = n) (hd : 1 ≤ d) (i j : Nat) (hi : i < n) (hj : j < n) :
    denLower (asmIasls n d lam lam1 w true false) i j = docIasls n d lam lam1 w i j := by
  show denLower (addRow (addB (scale lam (bandsQ n d true)) (scale lam1 (padLower (bandsQ n 1 true) (d - 1) n))) 0
    (w.map fun v => v * v)) i j = _
  have hs1 := shape_scale lam _ _ _ (shape_bandsQ_lower n d)
  have hs2 := shape_scale lam1 _ _ _ (shape_padLower_D1 n d hd)
  rw [denLower_eq, ent_addRow _ _ _ (d + 1) n _ _ (shape_addB _ _ _ _ hs1 hs2) (by simpa using hw),
    ent_addB _ _ _ _ _ _ hs1 hs2, ent_scale, ent_scale, ent_padLower,
    ent_bandsQ_lower_eq n d i j hi hj, ent_bandsQ_lower_eq n 1 i j hi hj, getD_map_sq]
  unfold docIasls delta
  by_cases h : i = j
  · subst h
    rw [if_pos ⟨by omega, by omega⟩, if_pos rfl, Nat.min_self]; ring
  · rw [if_neg (by omega), if_neg h]; ring

theorem iasls_asm_den_full (n d : Nat) (lam lam1 : Rat) (w : List Rat) (hw : w.length = n) (hd : 1 ≤ d) (i j : Nat) (hi : i < n) (hj : j < n) :
    denFull (asmIasls n d lam lam1 w false false) d i j = docIasls n d lam lam1 w i j := by
  show denFull (addRow (addB (scale lam (bandsQ n d false)) (scale lam1 (padFull (bandsQ n 1 false) (d - 1) n))) d
    (w.map fun v => v * v)) d i j = _
  have hs1 := shape_scale lam _ _ _ (shape_bandsQ_full n d)
  have hs2 := shape_scale lam1 _ _ _ (shape_padFull_D1 n d hd)
  have hs := shape_addB _ _ _ _ hs1 hs2
  have hw' : (w.map fun v => v * v).length = n := by simpa using hw
  rw [denFull_eq, (shape_addRow _ d _ _ _ hs hw').1]
  unfold docIasls delta
  by_cases h : j ≤ i + d ∧ d + i - j < 2 * d + 1
  · rw [if_pos h, ent_addRow _ _ _ _ n _ _ hs hw', ent_addB _ _ _ _ _ _ hs1 hs2, ent_scale, ent_scale,
      ent_bandsQ_full_eq n d i j hi hj h.1 (by omega), ent_padFull_D1 n d i j hd hi hj h.1 (by omega), getD_map_sq]
    by_cases h2 : i = j
    · subst h2
      rw [if_pos ⟨by omega, by omega⟩, if_pos rfl]; ring
    · rw [if_neg (by omega), if_neg h2]; ring
  · rw [if_neg h, if_neg (by omega), dtdQ_band n d i j (by omega), dtdQ_band n 1 i j (by omega)]; ring

/-! ### shifted, column-scaled, reversed bands (aspls, drpls) -/

theorem denFull_shiftRows (T : List (List Rat)) (d n i j : Nat) (h : TblShape T (2 * d + 1) n) (hi : i < n) (hj : j < n) :
    denFull (shiftRows T d d) d i j = if j ≤ i + d ∧ i ≤ j + d then ent T (d + i - j) i else 0 := by
  rw [denFull_eq, length_shiftRows, h.1]
  by_cases hb : j ≤ i + d ∧ i ≤ j + d
  · rw [if_pos ⟨hb.1, by omega⟩, if_pos hb, ent_shiftRows T d n _ _ h (by omega) hj]
    by_cases h1 : d + i - j < d
    · rw [if_pos h1, if_neg (by omega)]
      congr 1; omega
    · rw [if_neg h1]
      congr 1; omega
  · rw [if_neg (by omega), if_neg hb]

theorem ent_rev_bandsQ (n d i j : Nat) (hi : i < n) (hj : j < n) (h1 : j ≤ i + d) (h2 : i ≤ j + d) :
    ent (bandsQ n d false).reverse (d + i - j) i = dtdQ n d i j := by
  rw [ent_reverse _ _ _ _ (shape_bandsQ_full n d).1, if_pos (by omega)]
  have e : 2 * d + 1 - 1 - (d + i - j) = d + j - i := by omega
  rw [e, ent_bandsQ_full_eq n d j i hj hi h2 h1, dtdQ_symm]

theorem shiftRows_reverse_colscale (n d : Nat) (w : List Rat) (hw : w.length = n) (i j : Nat) (hi : i < n) (hj : j < n) :
    denFull (shiftRows (colScale (bandsQ n d false).reverse w) d d) d i j = w.getD i 0 * dtdQ n d i j := by
  rw [denFull_shiftRows _ d n i j (shape_colScale _ w _ _ (shape_reverse _ _ _ (shape_bandsQ_full n d)) hw) hi hj]
  by_cases hb : j ≤ i + d ∧ i ≤ j + d
  · rw [if_pos hb, ent_colScale, ent_rev_bandsQ n d i j hi hj hb.1 hb.2]; ring
  · rw [if_neg hb, dtdQ_band n d i j (by omega)]; ring

theorem aspls_asm_den (n d : Nat) (lam : Rat) (w alpha : List Rat) (hw : w.length = n) (ha : alpha.length = n)
    (i j : Nat) (hi : i < n) (hj : j < n) :
    denFull (asmAspls n d lam w alpha false) d i j = docAspls n d lam w alpha i j := by
  show denFull (shiftRows (addRow (colScale (scale lam (bandsQ n d false)).reverse alpha) d w) d d) d i j = _
  have hs0 := shape_scale lam _ _ _ (shape_bandsQ_full n d)
  have hs1 := shape_colScale _ alpha _ _ (shape_reverse _ _ _ hs0) ha
  rw [denFull_shiftRows _ d n i j (shape_addRow _ d w _ _ hs1 hw) hi hj]
  unfold docAspls delta
  by_cases hb : j ≤ i + d ∧ i ≤ j + d
  · have hv : ent (colScale (scale lam (bandsQ n d false)).reverse alpha) (d + i - j) i
        = lam * dtdQ n d i j * alpha.getD i 0 := by
      rw [ent_colScale, ent_reverse _ _ _ _ hs0.1, if_pos (by omega), ent_scale]
      have e : 2 * d + 1 - 1 - (d + i - j) = d + j - i := by omega
      rw [e, ent_bandsQ_full_eq n d j i hj hi hb.2 hb.1, dtdQ_symm n d j i]
    rw [if_pos hb, ent_addRow _ _ _ _ n _ _ hs1 hw, hv]
    by_cases h2 : i = j
    · subst h2
      rw [if_pos ⟨by omega, by omega⟩, if_pos rfl]; ring
    · rw [if_neg (by omega), if_neg h2]; ring
  · rw [if_neg hb, if_neg (by omega), dtdQ_band n d i j (by omega)]; ring

theorem drpls_asm_den (n d : Nat) (lam eta : Rat) (w : List Rat) (hw : w.length = n) (hd : 1 ≤ d)
    (i j : Nat) (hi : i < n) (hj : j < n) :
    denFull (asmDrpls n d lam eta w false) d i j = docDrpls n d lam eta w i j := by
  show denFull (addB (addB (scale lam (bandsQ n d false)) (padFull (bandsQ n 1 false) (d - 1) n))
    (shiftRows (colScale (addRowC (scale (-eta) (scale lam (bandsQ n d false))).reverse d 1) w) d d)) d i j = _
  have hs0 := shape_scale lam _ _ _ (shape_bandsQ_full n d)
  have hs1 := shape_padFull_D1 n d hd
  have hsb := shape_addB _ _ _ _ hs0 hs1
  have hs2 := shape_scale (-eta) _ _ _ hs0
  have hs3 := shape_reverse _ _ _ hs2
  have hs4 := shape_colScale _ w _ _ (shape_addRowC _ d 1 _ _ hs3) hw
  have hs5 := shape_shiftRows _ d d _ _ hs4
  have key := denFull_shiftRows _ d n i j hs4 hi hj
  rw [denFull_eq, length_shiftRows, hs4.1] at key
  rw [denFull_eq, (shape_addB _ _ _ _ hsb hs5).1]
  unfold docDrpls delta
  by_cases hb : j ≤ i + d ∧ d + i - j < 2 * d + 1
  · have hb' : j ≤ i + d ∧ i ≤ j + d := ⟨hb.1, by omega⟩
    rw [if_pos hb, if_pos hb'] at key
    have hv : ent (scale (-eta) (scale lam (bandsQ n d false))).reverse (d + i - j) i
        = -eta * (lam * dtdQ n d i j) := by
      rw [ent_reverse _ _ _ _ hs2.1, if_pos (by omega), ent_scale, ent_scale]
      have e : 2 * d + 1 - 1 - (d + i - j) = d + j - i := by omega
      rw [e, ent_bandsQ_full_eq n d j i hj hi hb'.2 hb'.1, dtdQ_symm n d j i]
    rw [if_pos hb, ent_addB _ _ _ _ _ _ hsb hs5, key, ent_addB _ _ _ _ _ _ hs0 hs1, ent_scale,
      ent_bandsQ_full_eq n d i j hi hj hb.1 hb'.2, ent_padFull_D1 n d i j hd hi hj hb.1 hb'.2,
      ent_colScale, ent_addRowC _ _ _ _ n _ _ hs3, hv]
    by_cases h2 : i = j
    · subst h2
      rw [if_pos ⟨by omega, by omega, hi⟩, if_pos rfl]; ring
    · rw [if_neg (by omega), if_neg h2]; ring
  · rw [if_neg hb, if_neg (by omega), dtdQ_band n d i j (by omega), dtdQ_band n 1 i j (by omega)]; ring


/-! ### iasls right-hand side -/

def qsum (N : Nat) (f : Nat → Rat) : Rat := sumL ((List.range N).map f)

theorem qsum_zero (f : Nat → Rat) : qsum 0 f = 0 := rfl
theorem qsum_succ (N : Nat) (f : Nat → Rat) : qsum (N + 1) f = qsum N f + f N := by
  simp [qsum, sumL, List.range_succ, List.foldl_append]
theorem qsum_congr {N : Nat} {f g : Nat → Rat} (h : ∀ m, m < N → f m = g m) : qsum N f = qsum N g := by
  unfold qsum
  congr 1
  apply List.map_congr_left
  intro m hm
  exact h m (List.mem_range.mp hm)
theorem qsum_add (N : Nat) (f g : Nat → Rat) : qsum N (fun m => f m + g m) = qsum N f + qsum N g := by
  induction N with
  | zero => simp [qsum_zero]
  | succ N ih => rw [qsum_succ, qsum_succ, qsum_succ, ih]; ring
theorem qsum_single (N k : Nat) (a : Rat) : qsum N (fun m => if m = k then a else 0) = if k < N then a else 0 := by
  induction N with
  | zero => simp [qsum_zero]
  | succ N ih =>
    rw [qsum_succ, ih]
    by_cases h1 : k < N
    · rw [if_pos h1, if_neg (by omega), if_pos (by omega)]; ring
    · by_cases h2 : N = k
      · rw [if_neg h1, if_pos h2, if_pos (by omega)]; ring
      · rw [if_neg h1, if_neg h2, if_neg (by omega)]; ring

theorem dtdOff1_diag (n i : Nat) : dtdOff n 1 i 0 = (if i + 1 < n then 1 else 0) + (if 1 ≤ i ∧ i < n then 1 else 0) := by
  simp only [dtdOff, List.range_succ, List.range_zero, List.nil_append, List.map_cons, List.map_nil,
    List.cons_append, List.sum_cons, List.sum_nil, coef]
  have e1 : (0 ≤ i ∧ i - 0 + 1 < n ∧ 0 + 0 ≤ 1) ↔ i + 1 < n := by omega
  have e2 : (1 ≤ i ∧ i - 1 + 1 < n ∧ 1 + 0 ≤ 1) ↔ (1 ≤ i ∧ i < n) := by omega
  simp only [e1, e2]
  split <;> split <;> simp

theorem dtdOff1_off (n i : Nat) (h : i + 1 < n) : dtdOff n 1 i 1 = -1 := by
  simp only [dtdOff, List.range_succ, List.range_zero, List.nil_append, List.map_cons, List.map_nil,
    List.cons_append, List.sum_cons, List.sum_nil, coef]
  rw [if_pos (by omega), if_neg (by omega)]; simp

theorem dtdQ1 (n i j : Nat) (hi : i < n) (hj : j < n) :
    dtdQ n 1 i j = if i = j then (if i + 1 < n then 1 else 0) + (if 1 ≤ i then 1 else 0)
      else if j = i + 1 ∨ i = j + 1 then -1 else 0 := by
  unfold dtdQ
  by_cases h : i = j
  · subst h
    have := dtdOff_eq_DtD n 1 i 0 (by omega)
    rw [Nat.add_zero] at this
    rw [if_pos rfl, ← this, dtdOff1_diag]
    have e : (1 ≤ i ∧ i < n) ↔ 1 ≤ i := by omega
    simp only [e]
    split <;> split <;> norm_num
  · rw [if_neg h]
    by_cases h1 : j = i + 1
    · subst h1
      rw [if_pos (Or.inl rfl), ← dtdOff_eq_DtD n 1 i 1 (by omega), dtdOff1_off n i (by omega)]; simp
    · by_cases h2 : i = j + 1
      · subst h2
        rw [if_pos (Or.inr rfl), DtD_symm, ← dtdOff_eq_DtD n 1 j 1 (by omega), dtdOff1_off n j (by omega)]; simp
      · rw [if_neg (by omega), DtD_band' n 1 i j (by omega)]; simp

theorem iasls_rhs (y : List Rat) (hn : 2 ≤ y.length) (i : Nat) (hi : i < y.length) :
    (d1y y).getD i 0 = sumL ((List.range y.length).map fun (j : Nat) => dtdQ y.length 1 i j * y.getD j 0) := by
  show _ = qsum y.length (fun j => dtdQ y.length 1 i j * y.getD j 0)
  have hsum : qsum y.length (fun j => dtdQ y.length 1 i j * y.getD j 0)
      = qsum y.length (fun j =>
          ((if j = i then ((if i + 1 < y.length then 1 else 0) + (if 1 ≤ i then 1 else 0)) * y.getD i 0 else 0)
           + (if j = i + 1 then - y.getD (i + 1) 0 else 0))
           + (if j = i - 1 then (if 1 ≤ i then - y.getD (i - 1) 0 else 0) else 0)) := by
    apply qsum_congr
    intro j hj
    rw [dtdQ1 _ i j hi hj]
    by_cases h : i = j
    · subst h
      rw [if_pos rfl, if_pos rfl, if_neg (show ¬ i = i + 1 by omega)]
      by_cases h0 : 1 ≤ i
      · rw [if_neg (show ¬ i = i - 1 by omega)]; ring
      · rw [if_pos (show i = i - 1 by omega), if_neg h0, if_neg h0]; ring
    · rw [if_neg h, if_neg (show ¬ j = i by omega)]
      by_cases h1 : j = i + 1
      · subst h1
        rw [if_pos (Or.inl rfl), if_pos rfl, if_neg (show ¬ i + 1 = i - 1 by omega)]; ring
      · by_cases h2 : i = j + 1
        · subst h2
          rw [if_pos (Or.inr rfl), if_neg h1, if_pos (show j = j + 1 - 1 by omega), if_pos (show 1 ≤ j + 1 by omega)]
          have e : j + 1 - 1 = j := by omega
          rw [e]; ring
        · rw [if_neg (show ¬ (j = i + 1 ∨ i = j + 1) by omega), if_neg h1]
          by_cases h3 : j = i - 1
          · rw [if_pos h3, if_neg (show ¬ 1 ≤ i by omega)]; ring
          · rw [if_neg h3]; ring
  rw [hsum, qsum_add, qsum_add, qsum_single, qsum_single, qsum_single, if_pos hi, if_pos (show i - 1 < y.length by omega)]
  unfold d1y
  simp only []
  rw [getD_map_range, if_pos hi, if_neg (show ¬ y.length < 2 by omega)]
  by_cases h0 : i = 0
  · subst h0
    have a1 : 0 + 1 < y.length := by omega
    have a2 : ¬ 1 ≤ 0 := by omega
    simp only [if_pos a1, if_neg a2, if_true]; ring
  · have a0 : 1 ≤ i := by omega
    by_cases h1 : i = y.length - 1
    · have a1 : ¬ i + 1 < y.length := by omega
      have e : y.length - 2 = i - 1 := by omega
      rw [e, ← h1]
      simp only [if_neg h0, if_pos a0, if_neg a1, if_true]; ring
    · have a1 : i + 1 < y.length := by omega
      simp only [if_neg h0, if_neg h1, if_pos a0, if_pos a1]; ring

end PbVerif.Lemmas
