import PbVerif.Model.Whittaker
import PbVerif.Lemmas.Banded
/-! Lemmas for C06: every banded assembly denotes the documented matrix. -/
namespace PbVerif.Lemmas
open PbVerif.Banded PbVerif.Whittaker

/-- the fast offset form is the dense `D'D` -/
theorem dtdFastQ_eq (n d i j : Nat) (hi : i < n) (hj : j < n) : dtdFastQ n d i j = dtdQ n d i j := by sorry

/-- lower storage of `bandsQ` denotes `D'D` -/
theorem denLower_bandsQ (n d i j : Nat) (hi : i < n) (hj : j < n) :
    denLower (bandsQ n d true) i j = dtdQ n d i j := by sorry
/-- full storage of `bandsQ` denotes `D'D` -/
theorem denFull_bandsQ (n d i j : Nat) (hi : i < n) (hj : j < n) :
    denFull (bandsQ n d false) d i j = dtdQ n d i j := by sorry

/-- **standard Whittaker system**: `add_diagonal(w)` on `lam * penalty` denotes `W + λ D'D`, lower storage -/
theorem std_asm_den_lower (n d : Nat) (lam : Rat) (w : List Rat) (hw : w.length = n) (i j : Nat) (hi : i < n) (hj : j < n) :
    denLower (asmStd n d lam w true false) i j = docStd n d lam w i j := by sorry
/-- … full storage -/
theorem std_asm_den_full (n d : Nat) (lam : Rat) (w : List Rat) (hw : w.length = n) (i j : Nat) (hi : i < n) (hj : j < n) :
    denFull (asmStd n d lam w false false) d i j = docStd n d lam w i j := by sorry
/-- … and the reversed full storage handed to pentapy is the un-reversed one read bottom-up -/
theorem std_asm_reversed (n d : Nat) (lam : Rat) (w : List Rat) :
    (asmStd n d lam w false true).reverse = asmStd n d lam w false false := by sorry

/-- iasls: `W'W + λ₁ D₁'D₁ + λ D'D` (d ≥ 1), lower and full storage -/
theorem iasls_asm_den_lower (n d : Nat) (lam lam1 : Rat) (w : List Rat) (hw : w.length = n) (hd : 1 ≤ d) (i j : Nat) (hi : i < n) (hj : j < n) :
    denLower (asmIasls n d lam lam1 w true false) i j = docIasls n d lam lam1 w i j := by sorry
theorem iasls_asm_den_full (n d : Nat) (lam lam1 : Rat) (w : List Rat) (hw : w.length = n) (hd : 1 ≤ d) (i j : Nat) (hi : i < n) (hj : j < n) :
    denFull (asmIasls n d lam lam1 w false false) d i j = docIasls n d lam lam1 w i j := by sorry
/-- iasls right-hand side: the closed form equals `D₁'D₁ y` for every length ≥ 2 -/
theorem iasls_rhs (y : List Rat) (hn : 2 ≤ y.length) (i : Nat) (hi : i < y.length) :
    (d1y y).getD i 0 = sumL ((List.range y.length).map fun (j : Nat) => dtdQ y.length 1 i j * y.getD j 0) := by sorry

/-- key lemma: shifting the rows of the column-scaled REVERSED full bands of a symmetric banded matrix
yields the LAPACK full bands of `diag(w) · P` -/
theorem shiftRows_reverse_colscale (n d : Nat) (w : List Rat) (hw : w.length = n) (i j : Nat) (hi : i < n) (hj : j < n) :
    denFull (shiftRows (colScale (bandsQ n d false).reverse w) d d) d i j = w.getD i 0 * dtdQ n d i j := by sorry

/-- aspls (SciPy branch): `W + λ diag(α) D'D` -/
theorem aspls_asm_den (n d : Nat) (lam : Rat) (w alpha : List Rat) (hw : w.length = n) (ha : alpha.length = n)
    (i j : Nat) (hi : i < n) (hj : j < n) :
    denFull (asmAspls n d lam w alpha false) d i j = docAspls n d lam w alpha i j := by sorry

/-- drpls (SciPy branch): `W + D₁'D₁ + λ (I − η W) D'D` -/
theorem drpls_asm_den (n d : Nat) (lam eta : Rat) (w : List Rat) (hw : w.length = n) (hd : 1 ≤ d)
    (i j : Nat) (hi : i < n) (hj : j < n) :
    denFull (asmDrpls n d lam eta w false) d i j = docDrpls n d lam eta w i j := by sorry

end PbVerif.Lemmas
