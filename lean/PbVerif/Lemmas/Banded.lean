import PbVerif.Model.Banded
/-! Helper lemmas for C11 (proofs): clamp invariance of the table interpreter and of the D'D
specification, the windowed-sum lemma, layout conversions, the reconfiguration invariant. -/
set_option linter.unusedVariables false
namespace PbVerif.Lemmas
open PbVerif.Banded

/-- forward difference and its iterate (what `np.diff(·, d, axis=0)` computes, column by column) -/
def fdiff (f : Nat → Int) (k : Nat) : Int := f (k+1) - f k
def fdiffIter : Nat → (Nat → Int) → (Nat → Int)
  | 0, f => f
  | d+1, f => fdiffIter d (fdiff f)

/-! ### sums over `List.range` -/
def rsum (N : Nat) (f : Nat → Int) : Int := ((List.range N).map f).sum

theorem rsum_zero (f : Nat → Int) : rsum 0 f = 0 := rfl
theorem rsum_succ (N : Nat) (f : Nat → Int) : rsum (N+1) f = rsum N f + f N := by
  simp [rsum, List.range_succ]
theorem rsum_succ' (N : Nat) (f : Nat → Int) : rsum (N+1) f = f 0 + rsum N (fun m => f (m+1)) := by
  simp [rsum, List.range_succ_eq_map, List.map_map, Function.comp_def]
theorem rsum_congr {N : Nat} {f g : Nat → Int} (h : ∀ m, m < N → f m = g m) : rsum N f = rsum N g := by
  unfold rsum
  congr 1
  apply List.map_congr_left
  intro m hm
  exact h m (List.mem_range.mp hm)
theorem rsum_eq_zero {N : Nat} {f : Nat → Int} (h : ∀ m, m < N → f m = 0) : rsum N f = 0 := by
  induction N with
  | zero => rfl
  | succ N ih =>
    rw [rsum_succ, ih (fun m hm => h m (by omega)), h N (by omega)]; rfl
theorem rsum_add (N : Nat) (f g : Nat → Int) : rsum N (fun m => f m + g m) = rsum N f + rsum N g := by
  induction N with
  | zero => rfl
  | succ N ih => rw [rsum_succ, rsum_succ, rsum_succ, ih]; omega
theorem rsum_sub (N : Nat) (f g : Nat → Int) : rsum N (fun m => f m - g m) = rsum N f - rsum N g := by
  induction N with
  | zero => rfl
  | succ N ih => rw [rsum_succ, rsum_succ, rsum_succ, ih]; omega
theorem rsum_single (N j : Nat) (a : Int) (P : Nat → Prop) [DecidablePred P] (hj : j < N)
    (hP : ∀ m, m < N → (P m ↔ m = j)) : rsum N (fun m => if P m then a else 0) = a := by
  induction N with
  | zero => omega
  | succ N ih =>
    rw [rsum_succ]
    by_cases h : j = N
    · subst h
      rw [rsum_eq_zero, if_pos ((hP j (by omega)).mpr rfl)]; omega
      intro m hm
      rw [if_neg]
      intro hp
      have := (hP m (by omega)).mp hp
      omega
    · rw [ih (by omega) (fun m hm => hP m (by omega)), if_neg]; omega
      intro hp
      have := (hP N (by omega)).mp hp
      omega

theorem coef_eq_zero (d m : Nat) (h : d < m) : coef d m = 0 := by
  induction d generalizing m with
  | zero =>
    cases m with
    | zero => omega
    | succ m => rfl
  | succ d ih =>
    cases m with
    | zero => omega
    | succ m =>
      simp only [coef]
      rw [ih m (by omega), ih (m+1) (by omega)]; rfl

theorem fdiffIter_eq_coef (d : Nat) (f : Nat → Int) (k : Nat) :
    fdiffIter d f k = ((List.range (d+1)).map fun m => coef d m * f (k + m)).sum := by
  show _ = rsum (d+1) (fun m => coef d m * f (k + m))
  induction d generalizing f with
  | zero => simp [fdiffIter, rsum, coef]
  | succ d ih =>
    simp only [fdiffIter]
    rw [ih (fdiff f), rsum_succ' (d+1)]
    simp only [coef, fdiff]
    have e1 : rsum (d+1) (fun m => coef d m * (f (k + m + 1) - f (k + m)))
        = rsum (d+1) (fun m => coef d m * f (k + m + 1)) - rsum (d+1) (fun m => coef d m * f (k + m)) := by
      rw [← rsum_sub]
      apply rsum_congr
      intro m _
      rw [Int.mul_sub]
    have e2 : rsum (d+1) (fun m => (coef d m - coef d (m+1)) * f (k + (m + 1)))
        = rsum (d+1) (fun m => coef d m * f (k + m + 1)) - rsum (d+1) (fun m => coef d (m+1) * f (k + (m + 1))) := by
      rw [← rsum_sub]
      apply rsum_congr
      intro m _
      rw [Int.sub_mul]; rfl
    have e3 : rsum (d+1) (fun m => coef d m * f (k + m))
        = coef d 0 * f k + rsum (d+1) (fun m => coef d (m+1) * f (k + (m + 1))) := by
      rw [rsum_succ' d, rsum_succ d (fun m => coef d (m+1) * f (k + (m + 1))), coef_eq_zero d (d+1) (by omega)]
      simp
    rw [e1, e2, e3]
    simp only [Nat.add_zero, Int.neg_mul]
    omega

/-! ### the coefficient loop of `difference_matrix` -/

theorem diffStep_map (L : Nat) (g : Nat → Int) :
    diffStep ((List.range (L+1)).map g) = (List.range L).map (fun p => g p - g (p+1)) := by
  unfold diffStep
  apply List.ext_getElem?
  intro p
  by_cases hp : p < L
  · simp [hp]
  · rw [List.getElem?_eq_none (by simp; omega), List.getElem?_eq_none (by simp; omega)]

theorem diffIter_succ' (j : Nat) (l : List Int) : diffIter (j+1) l = diffStep (diffIter j l) := by
  induction j generalizing l with
  | zero => rfl
  | succ j ih =>
    show diffIter (j+1) (diffStep l) = diffStep (diffIter j (diffStep l))
    exact ih (diffStep l)

/-- entry p of the coefficient vector after j steps -/
def iterEnt (d j p : Nat) : Int := if d ≤ p + j ∧ p ≤ d then coef j (p + j - d) else 0

theorem iterEnt_step (d j p : Nat) : iterEnt d (j+1) p = iterEnt d j p - iterEnt d j (p+1) := by
  unfold iterEnt
  by_cases h1 : d ≤ p + (j + 1) ∧ p ≤ d
  · rw [if_pos h1]
    by_cases h2 : p + j + 1 = d
    · rw [if_neg (by omega), if_pos (by omega)]
      have e1 : p + (j + 1) - d = 0 := by omega
      have e2 : p + 1 + j - d = 0 := by omega
      rw [e1, e2]; simp [coef]
    · have e1 : p + (j + 1) - d = (p + j - d) + 1 := by omega
      rw [if_pos (by omega), e1]
      simp only [coef]
      by_cases h3 : p + 1 ≤ d
      · have e2 : p + 1 + j - d = p + j - d + 1 := by omega
        rw [if_pos (by omega), e2]
      · rw [if_neg (by omega), coef_eq_zero j (p + j - d + 1) (by omega)]
  · rw [if_neg h1]
    by_cases h2 : d < p
    · rw [if_neg (by omega), if_neg (by omega)]; rfl
    · rw [if_neg (by omega), if_neg (by omega)]; rfl

theorem unit_eq (d : Nat) :
    (List.replicate d 0) ++ [1] ++ (List.replicate d 0) = (List.range (2*d+1)).map (iterEnt d 0) := by
  apply List.ext_getElem?
  intro p
  by_cases hp : p < 2 * d + 1
  · rw [List.getElem?_map, List.getElem?_range hp]
    unfold iterEnt
    by_cases h1 : p < d
    · rw [List.getElem?_append_left (by simp; omega), List.getElem?_append_left (by simp; omega)]
      simp [h1]; omega
    · by_cases h2 : p = d
      · subst h2
        rw [List.getElem?_append_left (by simp), List.getElem?_append_right (by simp)]
        simp [coef]
      · rw [List.getElem?_append_right (by simp; omega)]
        simp [List.getElem?_replicate]
        constructor <;> omega
  · rw [List.getElem?_eq_none (by simp; omega), List.getElem?_eq_none (by simp; omega)]

theorem diffIter_unit (d j : Nat) (hj : j ≤ d) :
    diffIter j ((List.replicate d 0) ++ [1] ++ (List.replicate d 0))
      = (List.range (2*d+1-j)).map (iterEnt d j) := by
  induction j with
  | zero => exact unit_eq d
  | succ j ih =>
    rw [diffIter_succ', ih (by omega)]
    have e : 2 * d + 1 - j = (2 * d + 1 - (j + 1)) + 1 := by omega
    rw [e, diffStep_map]
    apply List.map_congr_left
    intro p _
    exact (iterEnt_step d j p).symm

theorem diffCoefCode_eq (d : Nat) : diffCoefCode d = (List.range (d+1)).map (coef d) := by
  unfold diffCoefCode
  rw [diffIter_unit d d (Nat.le_refl d)]
  have e : 2 * d + 1 - d = d + 1 := by omega
  rw [e]
  apply List.map_congr_left
  intro p hp
  have := List.mem_range.mp hp
  unfold iterEnt
  rw [if_pos (by omega)]
  congr 1; omega

/-! ### D'D: windowed sum, symmetry, bandwidth -/

/-- windowed sum: a summand supported on `k ≤ i ≤ k + d` can be re-indexed by `m = i - k ≤ d` -/
theorem rsum_window (N d i : Nat) (F : Nat → Int) (hF : ∀ k, ¬ (k ≤ i ∧ i ≤ k + d) → F k = 0) :
    rsum N F = rsum (d+1) (fun m => if m ≤ i ∧ i - m < N then F (i - m) else 0) := by
  induction N with
  | zero =>
    rw [rsum_zero, rsum_eq_zero]
    intro m _
    rw [if_neg (by omega)]
  | succ N ih =>
    rw [rsum_succ, ih]
    have e : rsum (d+1) (fun m => if m ≤ i ∧ i - m < N + 1 then F (i - m) else 0)
        = rsum (d+1) (fun m => (if m ≤ i ∧ i - m < N then F (i - m) else 0)
            + (if m ≤ i ∧ i - m = N then F N else 0)) := by
      apply rsum_congr
      intro m _
      by_cases h1 : m ≤ i ∧ i - m < N
      · rw [if_pos h1, if_pos (by omega), if_neg (by omega)]; omega
      · by_cases h2 : m ≤ i ∧ i - m = N
        · rw [if_neg h1, if_pos h2, if_pos (by omega), h2.2]; omega
        · rw [if_neg h1, if_neg h2, if_neg (by omega)]; rfl
    rw [e, rsum_add]
    congr 1
    by_cases hN : N ≤ i ∧ i ≤ N + d
    · rw [rsum_single (d+1) (i - N) (F N) (fun m => m ≤ i ∧ i - m = N) (by omega)]
      intro m hm
      omega
    · rw [hF N hN, rsum_eq_zero]
      intro m _
      split <;> rfl

theorem dtdOff_eq_DtD (n d i t : Nat) (h : i + t < n) : dtdOff n d i t = DtD n d i (i + t) := by
  show rsum (d+1) _ = rsum (n - d) (fun k => Dent d k i * Dent d k (i + t))
  rw [rsum_window (n - d) d i (fun k => Dent d k i * Dent d k (i + t))]
  · apply rsum_congr
    intro m hm
    by_cases h1 : m ≤ i ∧ i - m + d < n
    · have h2 : m ≤ i ∧ i - m < n - d := by omega
      rw [if_pos h2]
      have e1 : Dent d (i - m) i = coef d m := by
        unfold Dent
        have e : i - (i - m) = m := by omega
        rw [if_pos (by omega), e]
      rw [e1]
      by_cases h3 : m + t ≤ d
      · have e2 : Dent d (i - m) (i + t) = coef d (m + t) := by
          unfold Dent
          have e : i + t - (i - m) = m + t := by omega
          rw [if_pos (by omega), e]
        rw [e2, if_pos (by omega)]
      · have e2 : Dent d (i - m) (i + t) = 0 := by
          unfold Dent
          rw [if_neg (by omega)]
        rw [e2, if_neg (by omega)]; simp
    · rw [if_neg (by omega), if_neg (by omega)]
  · intro k hk
    unfold Dent
    rw [if_neg (c := k ≤ i ∧ i - k ≤ d) (by omega)]; simp

theorem DtD_symm (n d i j : Nat) : DtD n d i j = DtD n d j i := by
  unfold DtD
  congr 1
  apply List.map_congr_left
  intro k _
  exact Int.mul_comm _ _

theorem DtD_band (n d i j : Nat) (h : i + d < j) : DtD n d i j = 0 := by
  show rsum _ _ = 0
  apply rsum_eq_zero
  intro k _
  unfold Dent
  by_cases hk : k ≤ i
  · rw [if_neg (c := k ≤ j ∧ j - k ≤ d) (by omega)]; simp
  · rw [if_neg (c := k ≤ i ∧ i - k ≤ d) (by omega)]; simp

/-! ### clamp invariance -/

theorem normB_clamp_le (K n n' c : Nat) (b : Int) (hb : -(K:Int) ≤ b ∧ b ≤ K)
    (hn : 2 * K + 1 ≤ n) (hn' : 2 * K + 1 ≤ n') (hc : c < n) :
    (normB b n ≤ c) ↔ (normB b n' ≤ (clamp K n n' c : Nat)) := by
  unfold normB clamp
  split <;> split <;> (try split) <;> omega

theorem normB_clamp_lt (K n n' c : Nat) (b : Int) (hb : -(K:Int) ≤ b ∧ b ≤ K)
    (hn : 2 * K + 1 ≤ n) (hn' : 2 * K + 1 ≤ n') (hc : c < n) :
    ((c:Int) < normB b n) ↔ (((clamp K n n' c : Nat) : Int) < normB b n') := by
  unfold normB clamp
  split <;> split <;> (try split) <;> omega

theorem clamp_lt (K n n' c : Nat) (hn : 2 * K + 1 ≤ n) (hn' : 2 * K + 1 ≤ n') (hc : c < n) :
    clamp K n n' c < n' := by
  unfold clamp; split <;> (try split) <;> omega

theorem covers_clamp (K : Nat) (a : Assign) (ha : Assign.boundedB K a = true) (rows n n' r c : Nat)
    (hn : 2 * K + 1 ≤ n) (hn' : 2 * K + 1 ≤ n') (hc : c < n) :
    covers a rows n r c = covers a rows n' r (clamp K n n' c) := by
  have hcl := clamp_lt K n n' c hn hn' hc
  unfold Assign.boundedB at ha
  unfold covers
  cases hl : a.lo with
  | none =>
    cases hh : a.hi with
    | none => simp [hc, hcl]
    | some bh =>
      simp [hl, hh] at ha
      have := normB_clamp_lt K n n' c bh ha hn hn' hc
      simp [this]
  | some bl =>
    cases hh : a.hi with
    | none =>
      simp [hl, hh] at ha
      have h1 := normB_clamp_le K n n' c bl ha hn hn' hc
      simp [hc, hcl, h1]
    | some bh =>
      simp [hl, hh] at ha
      have h1 := normB_clamp_le K n n' c bl ha.1 hn hn' hc
      have h2 := normB_clamp_lt K n n' c bh ha.2 hn hn' hc
      simp [h1, h2]

theorem bandAt_clamp (K : Nat) (init : Int) (tbl : List Assign) (ht : tbl.all (Assign.boundedB K) = true)
    (rows n n' r c : Nat) (hn : 2 * K + 1 ≤ n) (hn' : 2 * K + 1 ≤ n') (hc : c < n) :
    bandAt init tbl rows n r c = bandAt init tbl rows n' r (clamp K n n' c) := by
  unfold bandAt
  induction tbl generalizing init with
  | nil => rfl
  | cons a t ih =>
    simp only [List.all_cons, Bool.and_eq_true] at ht
    simp only [List.foldl]
    rw [covers_clamp K a ht.1 rows n n' r c hn hn' hc]
    exact ih _ ht.2

theorem clamp_cond (K n n' d c r : Nat) (hK : 2 * d ≤ K) (hr : r ≤ d)
    (hn : 2 * K + 1 ≤ n) (hn' : 2 * K + 1 ≤ n') (hc : c < n) :
    (c + r < n) ↔ (clamp K n n' c + r < n') := by
  unfold clamp; split <;> (try split) <;> omega

theorem dtdOff_clamp (K n n' d c r : Nat) (hK : 2 * d ≤ K) (hr : r ≤ d)
    (hn : 2 * K + 1 ≤ n) (hn' : 2 * K + 1 ≤ n') (hc : c < n) :
    dtdOff n d c r = dtdOff n' d (clamp K n n' c) r := by
  unfold dtdOff
  congr 1
  apply List.map_congr_left
  intro m hm
  have hm' : m ≤ d := by simp at hm; omega
  have : (m ≤ c ∧ c - m + d < n ∧ m + r ≤ d) ↔
      (m ≤ clamp K n n' c ∧ clamp K n n' c - m + d < n' ∧ m + r ≤ d) := by
    unfold clamp
    split <;> (try split) <;> omega
  simp only [this]

theorem specLower_clamp (K n n' d c r : Nat) (hK : 2 * d ≤ K) (hr : r ≤ d)
    (hn : 2 * K + 1 ≤ n) (hn' : 2 * K + 1 ≤ n') (hc : c < n) :
    specLower n d r c = specLower n' d r (clamp K n n' c) := by
  unfold specLower
  have hcond := clamp_cond K n n' d c r hK hr hn hn' hc
  by_cases h : c + r < n
  · rw [if_pos h, if_pos (hcond.mp h)]
    exact dtdOff_clamp K n n' d c r hK hr hn hn' hc
  · rw [if_neg h, if_neg (fun h' => h (hcond.mpr h'))]

theorem specFull_clamp (K n n' d c r : Nat) (hK : 2 * d ≤ K) (hr : r ≤ 2 * d)
    (hn : 2 * K + 1 ≤ n) (hn' : 2 * K + 1 ≤ n') (hc : c < n) :
    specFull n d r c = specFull n' d r (clamp K n n' c) := by
  unfold specFull
  by_cases h : d ≤ r
  · rw [if_pos h, if_pos h]
    exact specLower_clamp K n n' d c (r - d) hK (by omega) hn hn' hc
  · rw [if_neg h, if_neg h]
    have hcond : (d - r ≤ c) ↔ (d - r ≤ clamp K n n' c) := by
      unfold clamp; split <;> (try split) <;> omega
    by_cases h2 : d - r ≤ c
    · rw [if_pos h2, if_pos (hcond.mp h2)]
      unfold dtdOff
      congr 1
      apply List.map_congr_left
      intro m hm
      have hm' : m ≤ d := by simp at hm; omega
      have : (m ≤ c - (d - r) ∧ c - (d - r) - m + d < n ∧ m + (d - r) ≤ d) ↔
          (m ≤ clamp K n n' c - (d - r) ∧ clamp K n n' c - (d - r) - m + d < n' ∧ m + (d - r) ≤ d) := by
        unfold clamp
        split <;> (try split) <;> omega
      simp only [this]
    · rw [if_neg h2, if_neg (fun h' => h2 (hcond.mpr h'))]

theorem rows_entry {R n : Nat} {f g : Nat → Nat → Int}
    (h : ((List.range R).map fun r => (List.range n).map fun c => f r c) =
         ((List.range R).map fun r => (List.range n).map fun c => g r c)) :
    ∀ r, r < R → ∀ c, c < n → f r c = g r c := by
  intro r hr c hc
  rw [List.map_inj_left] at h
  have h1 := h r (List.mem_range.mpr hr)
  rw [List.map_inj_left] at h1
  exact h1 c (List.mem_range.mpr hc)

theorem rows_of_entry {R n : Nat} {f g : Nat → Nat → Int}
    (h : ∀ r, r < R → ∀ c, c < n → f r c = g r c) :
    ((List.range R).map fun r => (List.range n).map fun c => f r c) =
         ((List.range R).map fun r => (List.range n).map fun c => g r c) := by
  apply List.map_congr_left
  intro r hr
  apply List.map_congr_left
  intro c hc
  exact h r (List.mem_range.mp hr) c (List.mem_range.mp hc)

theorem active_bounded (t : DiagTable) (K : Nat) (lo : Bool)
    (hb : t.assigns.all (Assign.boundedB K) = true) :
    (t.active lo).all (Assign.boundedB K) = true := by
  unfold DiagTable.active
  rw [List.all_eq_true] at hb ⊢
  intro a ha
  exact hb a (List.mem_filter.mp ha).1

/-- the ∀n statement for a generated table follows from finitely many decidable checks -/
theorem table_eq_spec_of_decide (t : DiagTable) (d K : Nat) (hK : 2 * d ≤ K)
    (hb : t.assigns.all (Assign.boundedB K) = true)
    (hrowsL : t.rowsLower = d + 1) (hrowsF : t.rowsFull = 2 * d + 1)
    (hbig : ∀ lo : Bool, t.toRows lo (2 * K + 1) = specRows (2 * K + 1) d lo)
    (hsmall : ∀ n, n < 2 * K + 1 → 2 * d + 1 ≤ n → ∀ lo : Bool, t.toRows lo n = specRows n d lo) :
    ∀ n, 2 * d + 1 ≤ n → ∀ lo : Bool, t.toRows lo n = specRows n d lo := by
  intro n hn lo
  by_cases hlt : n < 2 * K + 1
  · exact hsmall n hlt hn lo
  · have hn1 : 2 * K + 1 ≤ n := by omega
    have hact := active_bounded t K lo hb
    have hB := hbig lo
    cases lo with
    | true =>
      have hrows : t.rows true = d + 1 := by simp [DiagTable.rows, hrowsL]
      unfold DiagTable.toRows specRows at hB ⊢
      rw [hrows] at hB ⊢
      simp only [if_true] at hB ⊢
      have hE := rows_entry hB
      apply rows_of_entry
      intro r hr c hc
      have hcl := clamp_lt K n (2 * K + 1) c hn1 (Nat.le_refl _) hc
      unfold DiagTable.at
      rw [bandAt_clamp K _ _ hact _ n (2 * K + 1) r c hn1 (Nat.le_refl _) hc,
        specLower_clamp K n (2 * K + 1) d c r hK (by omega) hn1 (Nat.le_refl _) hc]
      exact hE r hr _ hcl
    | false =>
      have hrows : t.rows false = 2 * d + 1 := by simp [DiagTable.rows, hrowsF]
      unfold DiagTable.toRows specRows at hB ⊢
      rw [hrows] at hB ⊢
      simp only [Bool.false_eq_true, if_false] at hB ⊢
      have hE := rows_entry hB
      apply rows_of_entry
      intro r hr c hc
      have hcl := clamp_lt K n (2 * K + 1) c hn1 (Nat.le_refl _) hc
      unfold DiagTable.at
      rw [bandAt_clamp K _ _ hact _ n (2 * K + 1) r c hn1 (Nat.le_refl _) hc,
        specFull_clamp K n (2 * K + 1) d c r hK (by omega) hn1 (Nat.le_refl _) hc]
      exact hE r hr _ hcl

/-! ### layout conversions -/

theorem shiftRight_length (s : Nat) (row : List Int) : (shiftRight s row).length = row.length := by
  simp [shiftRight]; omega

theorem shiftRight_getElem? (s : Nat) (row : List Int) (c : Nat) (hc : c < row.length) :
    (shiftRight s row)[c]? = if c < s then some 0 else row[c - s]? := by
  unfold shiftRight
  by_cases h : c < s
  · rw [if_pos h, List.getElem?_append_left (by simp; omega)]
    simp [List.getElem?_replicate]; omega
  · rw [if_neg h, List.getElem?_append_right (by simp; omega)]
    simp
    have : min s row.length = s := by omega
    rw [this, List.getElem?_take_of_lt (by omega)]

theorem shiftRight_specLower (n d s : Nat) (hs0 : 0 < s) (hs : s ≤ d) :
    shiftRight s ((List.range n).map fun c => specLower n d s c)
      = (List.range n).map fun c => specFull n d (d - s) c := by
  apply List.ext_getElem?
  intro c
  by_cases hc : c < n
  · rw [shiftRight_getElem? _ _ _ (by simpa using hc)]
    simp only [List.getElem?_map, List.getElem?_range hc, Option.map_some]
    unfold specFull specLower
    have h1 : ¬ d ≤ d - s := by omega
    have h2 : d - (d - s) = s := by omega
    rw [if_neg h1, h2]
    by_cases h : c < s
    · rw [if_pos h, if_neg (by omega)]
    · rw [if_neg h, if_pos (by omega), List.getElem?_range (by omega)]
      simp; omega
  · rw [List.getElem?_eq_none (by simp [shiftRight_length]; omega),
      List.getElem?_eq_none (by simp; omega)]

theorem upper_entry (n d i : Nat) (hi : i < d) :
   (((specRows n d true).tail.reverse).zipIdx.map fun (row, i) => shiftRight ((specRows n d true).length - 1 - i) row)[i]?
    = some ((List.range n).map fun c => specFull n d i c) := by
  simp [specRows]
  refine ⟨(List.range n).map fun c => specLower n d (d - i) c, ?_, ?_⟩
  · rw [List.getElem?_reverse (by simp; omega)]
    simp
    refine ⟨d - i, ?_, fun _ _ => rfl⟩
    rw [List.getElem?_range (by omega)]
    congr 1; omega
  · have := shiftRight_specLower n d (d - i) (by omega) (by omega)
    rw [this]
    have h2 : d - (d - i) = i := by omega
    rw [h2]

theorem drop_full_eq_lower_aux (n d : Nat) : (specRows n d false).drop d = specRows n d true := by
  unfold specRows
  simp only [Bool.false_eq_true, if_false, if_true]
  apply List.ext_getElem
  · simp; omega
  · intro i h1 h2
    simp at h1 h2 ⊢
    intro c hc
    simp [specFull]

theorem lowerToFull_spec (n d : Nat) : lowerToFull (specRows n d true) = specRows n d false := by
  unfold lowerToFull
  show _ ++ specRows n d true = _
  rw [← List.take_append_drop d (specRows n d false), drop_full_eq_lower_aux]
  congr 1
  apply List.ext_getElem?
  intro i
  by_cases hi : i < d
  · rw [upper_entry n d i hi, List.getElem?_take_of_lt hi]
    simp [specRows]
    rw [List.getElem?_range (by omega)]; rfl
  · rw [List.getElem?_eq_none (by simp [specRows]; omega),
      List.getElem?_eq_none (by simp [specRows]; omega)]

theorem drop_full_eq_lower (n d : Nat) : (specRows n d false).drop d = specRows n d true :=
  drop_full_eq_lower_aux n d

/-! ### reconfiguration invariant -/

/-- coherence of a `PenalizedSystem`: the stored diagonals are those of a fresh system in the
object's current layout -/
def Coh (s : PSys) : Prop :=
  s.orig = some (if s.reversed then (penaltyDiags s.n s.diffOrder s.lower).reverse
                 else penaltyDiags s.n s.diffOrder s.lower)

def resetClosed (n : Nat) (hp : Bool) (c : Cfg) : PSys :=
  { n := n, hasPentapy := hp, orig := some (freshOrig n hp c), diffOrder := c.diffOrder,
    lower := lowerOf hp c, reversed := reversedOf hp c, usingPentapy := usingPentapyOf hp c,
    padding := c.padding }

theorem reset_orig (s : PSys) (c : Cfg) (h : s.orig = none ∨ Coh s) :
    (reset s c).orig = some (freshOrig s.n s.hasPentapy c) := by
  rcases h with h | h
  · simp [reset, h]
  · unfold Coh at h
    simp only [reset, h]
    by_cases hd : s.diffOrder = c.diffOrder
    · cases hr : s.reversed <;> cases hl : s.lower <;> cases hlo : lowerOf s.hasPentapy c <;>
        simp [freshOrig, penaltyDiags, lowerToFull_spec, drop_full_eq_lower, hd, hlo]
    · simp [hd]

theorem reset_closed (s : PSys) (c : Cfg) (h : s.orig = none ∨ Coh s) :
    reset s c = resetClosed s.n s.hasPentapy c := by
  have h1 := reset_orig s c h
  unfold reset at h1 ⊢
  unfold resetClosed
  simp only at h1 ⊢
  rw [h1]

theorem reset_coh (s : PSys) (c : Cfg) (h : s.orig = none ∨ Coh s) : Coh (reset s c) := by
  rw [reset_closed s c h]
  simp only [Coh, resetClosed, freshOrig]
  rfl

theorem foldl_inv (n : Nat) (hp : Bool) (cs : List Cfg) (s : PSys)
    (h : s.orig = none ∨ Coh s) (hn : s.n = n) (hh : s.hasPentapy = hp) :
    ((cs.foldl reset s).orig = none ∨ Coh (cs.foldl reset s)) ∧ (cs.foldl reset s).n = n ∧
      (cs.foldl reset s).hasPentapy = hp := by
  induction cs generalizing s with
  | nil => exact ⟨h, hn, hh⟩
  | cons c cs ih =>
    simp only [List.foldl]
    apply ih
    · exact Or.inr (reset_coh s c h)
    · simpa [reset] using hn
    · simpa [reset] using hh

theorem reset_eq_fresh (n : Nat) (hp : Bool) (cs : List Cfg) (c : Cfg) :
    reset (cs.foldl reset (initSys n hp)) c = fresh n hp c := by
  obtain ⟨h1, h2, h3⟩ := foldl_inv n hp cs (initSys n hp) (Or.inl rfl) rfl rfl
  rw [reset_closed _ c h1, h2, h3]
  unfold fresh
  rw [reset_closed _ c (Or.inl rfl)]
  rfl

theorem padDiagonals_lower (ab : List (List Int)) (p : Nat) (n : Nat) (hp : 0 < p) :
    padDiagonals ab p true n = ab ++ List.replicate p (List.replicate n 0) := by
  simp [padDiagonals]
theorem padDiagonals_full (ab : List (List Int)) (p : Nat) (n : Nat) (hp : 0 < p) :
    padDiagonals ab p false n = List.replicate p (List.replicate n 0) ++ ab ++ List.replicate p (List.replicate n 0) := by
  simp [padDiagonals]; omega
theorem padDiagonals_nonpos (ab : List (List Int)) (p : Int) (lo : Bool) (n : Nat) (hp : p ≤ 0) :
    padDiagonals ab p lo n = ab := by
  simp [padDiagonals, hp]

end PbVerif.Lemmas
