import PbVerif.Model.Banded
/-! Helper lemmas for C11 (proofs): clamp invariance of the table interpreter and of the D'D
specification, the windowed-sum lemma, layout conversions, the reconfiguration invariant. -/
namespace PbVerif.Lemmas
open PbVerif.Banded

/-- forward difference and its iterate (what `np.diff(·, d, axis=0)` computes, column by column) -/
def fdiff (f : Nat → Int) (k : Nat) : Int := f (k+1) - f k
def fdiffIter : Nat → (Nat → Int) → (Nat → Int)
  | 0, f => f
  | d+1, f => fdiffIter d (fdiff f)

theorem fdiffIter_eq_coef (d : Nat) (f : Nat → Int) (k : Nat) :
    fdiffIter d f k = ((List.range (d+1)).map fun m => coef d m * f (k + m)).sum := by sorry

theorem diffCoefCode_eq (d : Nat) : diffCoefCode d = (List.range (d+1)).map (coef d) := by sorry

theorem dtdOff_eq_DtD (n d i t : Nat) (h : i + t < n) : dtdOff n d i t = DtD n d i (i + t) := by sorry

theorem DtD_symm (n d i j : Nat) : DtD n d i j = DtD n d j i := by sorry

theorem DtD_band (n d i j : Nat) (h : i + d < j) : DtD n d i j = 0 := by sorry

theorem bandAt_clamp (K : Nat) (init : Int) (tbl : List Assign) (ht : tbl.all (Assign.boundedB K) = true)
    (rows n n' r c : Nat) (hn : 2 * K + 1 ≤ n) (hn' : 2 * K + 1 ≤ n') (hc : c < n) :
    bandAt init tbl rows n r c = bandAt init tbl rows n' r (clamp K n n' c) := by sorry

theorem specLower_clamp (K n n' d c r : Nat) (hK : 2 * d ≤ K) (hr : r ≤ d)
    (hn : 2 * K + 1 ≤ n) (hn' : 2 * K + 1 ≤ n') (hc : c < n) :
    specLower n d r c = specLower n' d r (clamp K n n' c) := by sorry

theorem specFull_clamp (K n n' d c r : Nat) (hK : 2 * d ≤ K) (hr : r ≤ 2 * d)
    (hn : 2 * K + 1 ≤ n) (hn' : 2 * K + 1 ≤ n') (hc : c < n) :
    specFull n d r c = specFull n' d r (clamp K n n' c) := by sorry

/-- the ∀n statement for a generated table follows from finitely many decidable checks -/
theorem table_eq_spec_of_decide (t : DiagTable) (d K : Nat) (hK : 2 * d ≤ K)
    (hb : t.assigns.all (Assign.boundedB K) = true)
    (hrowsL : t.rowsLower = d + 1) (hrowsF : t.rowsFull = 2 * d + 1)
    (hbig : ∀ lo : Bool, t.toRows lo (2 * K + 1) = specRows (2 * K + 1) d lo)
    (hsmall : ∀ n, n < 2 * K + 1 → 2 * d + 1 ≤ n → ∀ lo : Bool, t.toRows lo n = specRows n d lo) :
    ∀ n, 2 * d + 1 ≤ n → ∀ lo : Bool, t.toRows lo n = specRows n d lo := by sorry

theorem lowerToFull_spec (n d : Nat) : lowerToFull (specRows n d true) = specRows n d false := by sorry

theorem drop_full_eq_lower (n d : Nat) : (specRows n d false).drop d = specRows n d true := by sorry

/-- coherence of a `PenalizedSystem`: the stored diagonals are those of a fresh system in the
object's current layout -/
def Coh (s : PSys) : Prop :=
  s.orig = some (if s.reversed then (penaltyDiags s.n s.diffOrder s.lower).reverse
                 else penaltyDiags s.n s.diffOrder s.lower)

theorem reset_coh (s : PSys) (c : Cfg) (h : s.orig = none ∨ Coh s) : Coh (reset s c) := by sorry

theorem reset_eq_fresh (n : Nat) (hp : Bool) (cs : List Cfg) (c : Cfg) :
    reset (cs.foldl reset (initSys n hp)) c = fresh n hp c := by sorry

theorem padDiagonals_lower (ab : List (List Int)) (p : Nat) (n : Nat) (hp : 0 < p) :
    padDiagonals ab p true n = ab ++ List.replicate p (List.replicate n 0) := by sorry
theorem padDiagonals_full (ab : List (List Int)) (p : Nat) (n : Nat) (hp : 0 < p) :
    padDiagonals ab p false n = List.replicate p (List.replicate n 0) ++ ab ++ List.replicate p (List.replicate n 0) := by sorry
theorem padDiagonals_nonpos (ab : List (List Int)) (p : Int) (lo : Bool) (n : Nat) (hp : p ≤ 0) :
    padDiagonals ab p lo n = ab := by sorry

end PbVerif.Lemmas
