import PbVerif.Lemmas.Kernels2
import Mathlib.Data.List.Forall2
/-! `_find_peak_segments` / `_averaged_interp` (classification.py): every `(start, end)` pair handed to `_interp_inplace`
is a non-empty range inside the data (C05 caller lemma). -/
namespace PbVerif.Lemmas
open PbVerif.Kernels

structure SegSpec (prevT : Bool) (off : Nat) (l : List Bool) : Prop where
  pwS : (peakSegs prevT off l).1.Pairwise (· < ·)
  pwE : (peakSegs prevT off l).2.Pairwise (· < ·)
  rS : ∀ s ∈ (peakSegs prevT off l).1, off ≤ s ∧ s < off + l.length
  rE : ∀ e ∈ (peakSegs prevT off l).2, off ≤ e ∧ e < off + l.length
  ne : (!prevT && !(l.headD true)) = true → (peakSegs prevT off l).2 ≠ []
  le : List.Forall₂ (· ≤ ·) (peakSegs prevT off l).1
         (if (!prevT && !(l.headD true)) = true then (peakSegs prevT off l).2.tail else (peakSegs prevT off l).2)

theorem segSpec : ∀ (l : List Bool) (prevT : Bool) (off : Nat), SegSpec prevT off l := by
  intro l
  induction l with
  | nil => intro p o; constructor <;> simp [peakSegs]
  | cons m rest ih =>
    intro prevT off
    obtain ⟨pwS, pwE, rS, rE, ne, le⟩ := ih m (off + 1)
    have hS : ∀ s ∈ (peakSegs m (off + 1) rest).1, off < s := fun s hs => by have := rS s hs; omega
    have hE : ∀ e ∈ (peakSegs m (off + 1) rest).2, off < e := fun e he => by have := rE e he; omega
    have rS' : ∀ s ∈ (peakSegs m (off + 1) rest).1, off ≤ s ∧ s < off + (m :: rest).length := fun s hs => by
      have := rS s hs; simp only [List.length_cons]; omega
    have rE' : ∀ e ∈ (peakSegs m (off + 1) rest).2, off ≤ e ∧ e < off + (m :: rest).length := fun e he => by
      have := rE e he; simp only [List.length_cons]; omega
    have h0 : off ≤ off ∧ off < off + (m :: rest).length := by simp only [List.length_cons]; omega
    cases m with
    | true =>
      -- a baseline point: neither a start nor an end; no run continues through it
      simp only [Bool.not_true, Bool.false_and, Bool.false_eq_true, if_false] at le ne
      constructor <;> simp only [peakSegs, Bool.not_true, Bool.false_and, Bool.false_eq_true, if_false, List.headD_cons,
        Bool.and_false, false_imp_iff] <;> first | assumption | trivial
    | false =>
      cases hd : rest.headD true with
      | true =>
        -- the run ends here
        simp only [hd, Bool.not_true, Bool.and_false, Bool.false_eq_true, if_false] at le ne
        cases prevT with
        | true =>
          constructor <;> simp only [peakSegs, hd, Bool.not_false, Bool.true_and, if_true, List.headD_cons, Bool.not_true,
            Bool.false_and, Bool.false_eq_true, if_false, false_imp_iff, List.pairwise_cons, List.mem_cons, forall_eq_or_imp]
          · exact ⟨hS, pwS⟩
          · exact ⟨hE, pwE⟩
          · exact ⟨h0, rS'⟩
          · exact ⟨h0, rE'⟩
          · exact List.Forall₂.cons (Nat.le_refl _) le
        | false =>
          constructor <;> simp only [peakSegs, hd, Bool.not_false, Bool.true_and, Bool.and_true, if_true, List.headD_cons,
            Bool.false_eq_true, if_false, List.pairwise_cons, List.mem_cons, forall_eq_or_imp, List.tail_cons]
          · exact pwS
          · exact ⟨hE, pwE⟩
          · exact rS'
          · exact ⟨h0, rE'⟩
          · intro _; simp
          · exact le
      | false =>
        -- the run continues: its end comes later
        simp only [hd, Bool.not_false, Bool.and_self, if_true, forall_const] at le ne
        cases prevT with
        | true =>
          constructor <;> simp only [peakSegs, hd, Bool.not_false, Bool.true_and, Bool.and_false, if_true, List.headD_cons,
            Bool.not_true, Bool.false_and, Bool.false_eq_true, if_false, false_imp_iff, List.pairwise_cons, List.mem_cons,
            forall_eq_or_imp]
          · exact ⟨hS, pwS⟩
          · exact pwE
          · exact ⟨h0, rS'⟩
          · exact rE'
          · cases hE2 : (peakSegs false (off + 1) rest).2 with
            | nil => exact absurd hE2 ne
            | cons e0 t =>
              rw [hE2] at le
              have := hE e0 (by rw [hE2]; simp)
              exact List.Forall₂.cons (by omega) le
        | false =>
          constructor <;> simp only [peakSegs, hd, Bool.not_false, Bool.true_and, Bool.and_true, Bool.and_false, if_true,
            List.headD_cons, Bool.false_eq_true, if_false, forall_const]
          · exact pwS
          · exact pwE
          · exact rS'
          · exact rE'
          · exact ne
          · exact le

theorem forall₂_comp3 {α β γ δ : Type} {A : α → β → Prop} {B : β → γ → Prop} {C : γ → δ → Prop} {R : α → δ → Prop}
    (h : ∀ a b c d, A a b → B b c → C c d → R a d) :
    ∀ {l1 : List α} {l2 : List β} {l3 : List γ} {l4 : List δ},
      List.Forall₂ A l1 l2 → List.Forall₂ B l2 l3 → List.Forall₂ C l3 l4 → List.Forall₂ R l1 l4 := by
  intro l1 l2 l3 l4 h1
  induction h1 generalizing l3 l4 with
  | nil => intro h2 h3; cases h2; cases h3; exact List.Forall₂.nil
  | cons hab _ ih =>
    intro h2 h3
    cases h2 with
    | cons hbc h2' =>
      cases h3 with
      | cons hcd h3' => exact List.Forall₂.cons (h _ _ _ _ hab hbc hcd) (ih h2' h3')

theorem adjStarts_spec (S : List Nat) (pw : S.Pairwise (· < ·)) :
    List.Forall₂ (fun (s' : Int) (s : Nat) => 0 ≤ s' ∧ s' ≤ s) (adjStarts S) S := by
  cases S with
  | nil => exact List.Forall₂.nil
  | cons s0 t =>
    have hlt := (List.pairwise_cons.1 pw).1
    simp only [adjStarts]
    split
    · rename_i h0
      refine List.Forall₂.cons ⟨Int.le_refl _, by omega⟩ ?_
      rw [List.forall₂_map_left_iff, List.forall₂_same]
      intro p hp
      have := hlt p hp
      omega
    · rename_i h0
      rw [List.forall₂_map_left_iff, List.forall₂_same]
      intro p hp
      rcases List.mem_cons.1 hp with rfl | hp
      · omega
      · have := hlt p hp
        omega

theorem adjEnds_spec (N : Nat) (E : List Nat) (pw : E.Pairwise (· < ·)) (hr : ∀ e ∈ E, e < N) :
    List.Forall₂ (fun (e : Nat) (e' : Int) => (e : Int) ≤ e' ∧ e' < N) E (adjEnds N E) := by
  unfold adjEnds
  cases hl : E.getLast? with
  | none =>
    have : E = [] := List.getLast?_eq_none_iff.1 hl
    subst this
    exact List.Forall₂.nil
  | some last =>
    have hE : E.dropLast ++ [last] = E := List.dropLast_append_getLast? last (by simp [hl])
    generalize E.dropLast = D at hE
    subst hE
    have hD : ∀ d ∈ D, d < last := fun d hd => (List.pairwise_append.1 pw).2.2 d hd last (by simp)
    have hlast : last < N := hr last (by simp)
    simp only
    split
    · rename_i heq
      refine List.rel_append ?_ (List.Forall₂.cons ⟨Int.le_refl _, by omega⟩ List.Forall₂.nil)
      rw [List.forall₂_map_right_iff, List.forall₂_same]
      intro d hd
      have := hD d hd
      omega
    · rename_i hne
      rw [List.forall₂_map_right_iff, List.forall₂_same]
      intro e he
      rcases List.mem_append.1 he with he | he
      · have := hD e he
        omega
      · simp only [List.mem_cons, List.not_mem_nil, or_false] at he
        omega

/-- caller lemma, `_averaged_interp` (golotvin, dietrich, std_distribution, fastchrom, cwt_br, fabc, rubberband …): for EVERY mask the
`(start, end)` pairs satisfy `0 ≤ start ≤ end ≤ N - 1` -/
theorem averagedInterp_calls_inb (mask : List Bool) :
    ∀ p ∈ averagedInterpCalls mask, 0 ≤ p.1 ∧ p.1 ≤ p.2 ∧ p.2 < (mask.length : Int) := by
  obtain ⟨pwS, pwE, _, rE, _, le⟩ := segSpec mask true 0
  simp only [Bool.not_true, Bool.false_and, Bool.false_eq_true, if_false] at le
  have hA := adjStarts_spec _ pwS
  have hC := adjEnds_spec mask.length _ pwE (fun e he => by have := rE e he; omega)
  have hR : List.Forall₂ (fun (s' e' : Int) => 0 ≤ s' ∧ s' ≤ e' ∧ e' < (mask.length : Int))
      (adjStarts (peakSegs true 0 mask).1) (adjEnds mask.length (peakSegs true 0 mask).2) :=
    forall₂_comp3 (fun a b c d h1 h2 h3 => by
      have h2' : (b : Int) ≤ (c : Int) := by exact_mod_cast h2
      omega) hA le hC
  intro p hp
  exact (List.forall₂_iff_zip.1 hR).2 hp

/-- … so both slices handed to `_interp_inplace` are unclipped, equally long and non-empty (its precondition) -/
theorem pre_interpInplace_of_averagedInterp' (mask : List Bool) :
    ∀ p ∈ averagedInterpCalls mask,
      sliceLen p.1 (p.2 + 1) mask.length = sliceLen p.1 (p.2 + 1) mask.length ∧
      1 ≤ sliceLen p.1 (p.2 + 1) mask.length ∧ ((sliceLen p.1 (p.2 + 1) mask.length : Nat) : Int) = p.2 + 1 - p.1 := by
  intro p hp
  have h := averagedInterp_calls_inb mask p hp
  have hs := sliceLen_of_inb p.1 (p.2 + 1) mask.length (by omega) (by omega) (by omega)
  refine ⟨rfl, by omega, hs⟩

end PbVerif.Lemmas
