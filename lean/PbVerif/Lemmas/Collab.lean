import Mathlib.Algebra.Order.Field.Rat
import Mathlib.Data.List.GetD
import PbVerif.Model.Collab
/-! Lemmas for the collab_pls planner (C17). -/
namespace PbVerif.Lemmas
open PbVerif.Collab

/-! ### the dictionary -/
theorem kwGet_kwSet_self (d : Kw) (k : String) (v : Val) : kwGet (kwSet d k v) k = some v := by
  induction d with
  | nil => simp [kwSet, kwGet]
  | cons p t ih =>
    obtain ⟨a, w⟩ := p
    by_cases h : a = k <;> simp [kwSet, kwGet, h, ih]

theorem kwGet_kwSet_other (d : Kw) (k : String) (v : Val) (k' : String) (h : k' ≠ k) : kwGet (kwSet d k v) k' = kwGet d k' := by
  induction d with
  | nil => simp [kwSet, kwGet, Ne.symm h]
  | cons p t ih =>
    obtain ⟨a, w⟩ := p
    by_cases h1 : a = k
    · subst h1
      simp [kwSet, kwGet, Ne.symm h]
    · by_cases h2 : a = k'
      · subst h2
        simp [kwSet, kwGet, h1]
      · simp [kwSet, kwGet, h1, h2, ih]

theorem mem_kwSet (d : Kw) (k : String) (v : Val) (p : String × Val) (hp : p ∈ kwSet d k v) : p ∈ d ∨ p = (k, v) := by
  induction d with
  | nil => simpa [kwSet] using hp
  | cons q t ih =>
    obtain ⟨a, w⟩ := q
    by_cases h : a = k
    · subst h
      simp only [kwSet, if_true, List.mem_cons] at hp
      rcases hp with hp | hp
      · exact Or.inr hp
      · exact Or.inl (List.mem_cons_of_mem _ hp)
    · simp only [kwSet, h, if_false, List.mem_cons] at hp
      rcases hp with hp | hp
      · exact Or.inl (hp ▸ List.mem_cons_self)
      · rcases ih hp with h' | h'
        · exact Or.inl (List.mem_cons_of_mem _ h')
        · exact Or.inr h'

/-! ### the final dictionary -/
theorem finalKw_other (fam : Family) (k : Nat) (avg : Bool) (user : Kw) (key : String) (h : key ∉ overridden fam) :
    kwGet (finalKw fam k avg user) key = kwGet user key := by
  obtain ⟨a, b, c, d⟩ := fam
  cases a <;> cases b <;> cases c <;> cases d <;> simp [overridden] at h <;>
    simp [finalKw, kwGet_kwSet_other, h]

theorem finalKw_weights (fam : Family) (k : Nat) (avg : Bool) (user : Kw) :
    kwGet (finalKw fam k avg user) "weights" = some (avgW k avg) := by
  obtain ⟨a, b, c, d⟩ := fam
  cases a <;> cases b <;> cases c <;> cases d <;>
    simp [finalKw, kwGet_kwSet_other, kwGet_kwSet_self]

theorem finalKw_alpha (fam : Family) (k : Nat) (avg : Bool) (user : Kw) (h : fam.calcAlpha = true) :
    kwGet (finalKw fam k avg user) "alpha" = some (avgA k avg) := by
  obtain ⟨a, b, c, d⟩ := fam
  simp only at h
  subst h
  cases b <;> cases c <;> cases d <;>
    simp [finalKw, kwGet_kwSet_other, kwGet_kwSet_self]

theorem finalKw_tol (fam : Family) (k : Nat) (avg : Bool) (user : Kw) (h : fam.setTol = true) :
    kwGet (finalKw fam k avg user) "tol" = some .inf := by
  obtain ⟨a, b, c, d⟩ := fam
  simp only at h
  subst h
  cases a <;> cases c <;> cases d <;>
    simp [finalKw, kwGet_kwSet_other, kwGet_kwSet_self]

theorem finalKw_tol2 (fam : Family) (k : Nat) (avg : Bool) (user : Kw) (h : fam.setTol2 = true) :
    kwGet (finalKw fam k avg user) "tol_2" = some .inf := by
  obtain ⟨a, b, c, d⟩ := fam
  simp only at h
  subst h
  cases a <;> cases b <;> cases d <;>
    simp [finalKw, kwGet_kwSet_other, kwGet_kwSet_self]

theorem finalKw_mask (fam : Family) (k : Nat) (avg : Bool) (user : Kw) (h : fam.asMask = true) :
    kwGet (finalKw fam k avg user) "weights_as_mask" = some .true_ := by
  obtain ⟨a, b, c, d⟩ := fam
  simp only at h
  subst h
  cases a <;> cases b <;> cases c <;>
    simp [finalKw, kwGet_kwSet_self]

/-! ### calls -/
theorem firstPass_length (k : Nat) (avg : Bool) (user : Kw) :
    (firstPass k avg user).length = if avg then 1 else k := by
  cases avg <;> simp [firstPass]

theorem mem_firstPass (k : Nat) (avg : Bool) (user : Kw) (c : Call) (hc : c ∈ firstPass k avg user) : c.kw = user := by
  cases avg
  · simp only [firstPass, Bool.false_eq_true, if_false, List.mem_map] at hc
    obtain ⟨i, _, rfl⟩ := hc
    rfl
  · simp only [firstPass, if_true, List.mem_singleton] at hc
    subst hc
    rfl

/-- every call receives, under every key that `collab_pls` does not override for this method, the user's value
(or no such key when the user gave none) -/
theorem plan_forwarded (twoD : Bool) (method : String) (k : Nat) (avg : Bool) (user : Kw) (c : Call)
    (hc : c ∈ (collabPlan twoD method k avg user).calls) (key : String) (hk : key ∉ overridden (family twoD method)) :
    kwGet c.kw key = kwGet user key := by
  simp only [collabPlan, List.mem_append, List.mem_map] at hc
  rcases hc with hc | ⟨i, _, rfl⟩
  · rw [mem_firstPass k avg user c hc]
  · exact finalKw_other _ k avg user key hk

/-- the i-th reported fit is call number `firstPass.length + i`, made on `dataset[i]` with the final dictionary -/
theorem plan_result_call (twoD : Bool) (method : String) (k : Nat) (avg : Bool) (user : Kw) (i : Nat) (hi : i < k) :
    (collabPlan twoD method k avg user).results.getD i 0 = (if avg then 1 else k) + i ∧
    (collabPlan twoD method k avg user).calls.getD ((if avg then 1 else k) + i) ⟨.mean, []⟩ =
      ⟨.entry i, finalKw (family twoD method) k avg user⟩ := by
  constructor
  · simp [collabPlan, List.getD_eq_getElem?_getD, hi, firstPass_length, Nat.add_comm]
  · have hl := firstPass_length k avg user
    simp only [collabPlan, List.getD_eq_getElem?_getD]
    rw [List.getElem?_append_right (by omega)]
    simp [hl, hi]

/-! ### semantics -/
/-- the fits a value is computed from -/
def refs : Val → List Nat
  | .fitWeights c => [c]
  | .fitAlpha c => [c]
  | .meanWeights cs => cs
  | .meanAlpha cs => cs
  | _ => []

/-- the user's dictionary holds the user's own values only -/
def UserKw (user : Kw) : Prop := ∀ p ∈ user, ∃ t, p.2 = .user t

theorem fitAt_append (h e : List Rec) (c : Nat) (hc : c < h.length) : fitAt (h ++ e) c = fitAt h c := by
  simp [fitAt, List.getD_eq_getElem?_getD, List.getElem?_append_left hc]

theorem resolve_append (h e : List Rec) (v : Val) (hv : ∀ c ∈ refs v, c < h.length) : resolve (h ++ e) v = resolve h v := by
  cases v with
  | user t => rfl
  | inf => rfl
  | true_ => rfl
  | fitWeights c => simp [resolve, fitAt_append h e c (hv c (by simp [refs]))]
  | fitAlpha c => simp [resolve, fitAt_append h e c (hv c (by simp [refs]))]
  | meanWeights cs =>
    simp only [resolve, Arg.arr.injEq]
    congr 1
    apply List.map_congr_left
    intro c hc
    rw [fitAt_append h e c (hv c (by simpa [refs] using hc))]
  | meanAlpha cs =>
    simp only [resolve, Arg.arr.injEq]
    congr 1
    apply List.map_congr_left
    intro c hc
    rw [fitAt_append h e c (hv c (by simpa [refs] using hc))]

theorem resolveKw_append (h e : List Rec) (kw : Kw) (hk : ∀ p ∈ kw, ∀ c ∈ refs p.2, c < h.length) :
    resolveKw (h ++ e) kw = resolveKw h kw := by
  apply List.map_congr_left
  intro p hp
  rw [resolve_append h e p.2 (hk p hp)]

/-- a block of fits of `dataset[0..k)` with one dictionary whose computed values refer to earlier fits only -/
theorem run_block (f : Method) (ds : List (List Rat)) (h : List Rec) (kw : Kw)
    (hk : ∀ p ∈ kw, ∀ c ∈ refs p.2, c < h.length) (k : Nat) :
    ((List.range k).map fun i => (⟨.entry i, kw⟩ : Call)).foldl (stepCall f ds) h =
      h ++ (List.range k).map fun i =>
        (⟨ds.getD i [], resolveKw h kw, f (h.length + i) (ds.getD i []) (resolveKw h kw)⟩ : Rec) := by
  induction k with
  | zero => simp
  | succ k ih =>
    rw [List.range_succ, List.map_append, List.foldl_append, ih]
    simp only [List.map_cons, List.map_nil, List.foldl_cons, List.foldl_nil, stepCall, resolveData,
      List.map_append, List.append_assoc]
    rw [← List.append_assoc, resolveKw_append h _ kw hk]
    simp [List.append_assoc]

theorem userKw_refs (user : Kw) (hu : UserKw user) (n : Nat) : ∀ p ∈ user, ∀ c ∈ refs p.2, c < n := by
  intro p hp c hc
  obtain ⟨t, ht⟩ := hu p hp
  rw [ht] at hc
  simp [refs] at hc

theorem finalKw_refs (fam : Family) (k : Nat) (avg : Bool) (user : Kw) (hu : UserKw user) :
    ∀ p ∈ finalKw fam k avg user, ∀ c ∈ refs p.2, c < (if avg then 1 else k) := by
  have hW : ∀ c ∈ refs (avgW k avg), c < (if avg then 1 else k) := by
    cases avg <;> simp [avgW, refs]
  have hA : ∀ c ∈ refs (avgA k avg), c < (if avg then 1 else k) := by
    cases avg <;> simp [avgA, refs]
  have hU := userKw_refs user hu (if avg then 1 else k)
  have step : ∀ (d : Kw) (key : String) (v : Val), (∀ p ∈ d, ∀ c ∈ refs p.2, c < (if avg then 1 else k)) →
      (∀ c ∈ refs v, c < (if avg then 1 else k)) → ∀ p ∈ kwSet d key v, ∀ c ∈ refs p.2, c < (if avg then 1 else k) := by
    intro d key v hd hv p hp
    rcases mem_kwSet d key v p hp with h | h
    · exact hd p h
    · subst h
      exact hv
  have hI : ∀ c ∈ refs Val.inf, c < (if avg then 1 else k) := by simp [refs]
  have hT : ∀ c ∈ refs Val.true_, c < (if avg then 1 else k) := by simp [refs]
  have h1 := step user "weights" _ hU hW
  obtain ⟨a, b, c, d⟩ := fam
  unfold finalKw
  simp only
  have h2 : ∀ p ∈ (if a = true then kwSet (kwSet user "weights" (avgW k avg)) "alpha" (avgA k avg) else kwSet user "weights" (avgW k avg)),
      ∀ c ∈ refs p.2, c < (if avg then 1 else k) := by
    cases a
    · simpa using h1
    · simpa using step _ "alpha" _ h1 hA
  generalize (if a = true then kwSet (kwSet user "weights" (avgW k avg)) "alpha" (avgA k avg) else kwSet user "weights" (avgW k avg)) = d2 at h2 ⊢
  have h3 : ∀ p ∈ (if b = true then kwSet d2 "tol" Val.inf else d2), ∀ c ∈ refs p.2, c < (if avg then 1 else k) := by
    cases b
    · simpa using h2
    · simpa using step _ "tol" _ h2 hI
  generalize (if b = true then kwSet d2 "tol" Val.inf else d2) = d3 at h3 ⊢
  have h4 : ∀ p ∈ (if c = true then kwSet d3 "tol_2" Val.inf else d3), ∀ c ∈ refs p.2, c < (if avg then 1 else k) := by
    cases c
    · simpa using h3
    · simpa using step _ "tol_2" _ h3 hI
  generalize (if c = true then kwSet d3 "tol_2" Val.inf else d3) = d4 at h4 ⊢
  cases d
  · simpa using h4
  · simpa using step _ "weights_as_mask" _ h4 hT

/-- the records of step 1 -/
def firstRecs (f : Method) (avg : Bool) (user : Kw) (ds : List (List Rat)) : List Rec :=
  if avg then [⟨meanRows ds, resolveKw [] user, f 0 (meanRows ds) (resolveKw [] user)⟩]
  else (List.range ds.length).map fun i => ⟨ds.getD i [], resolveKw [] user, f i (ds.getD i []) (resolveKw [] user)⟩

theorem firstRecs_length (f : Method) (avg : Bool) (user : Kw) (ds : List (List Rat)) :
    (firstRecs f avg user ds).length = if avg then 1 else ds.length := by
  cases avg <;> simp [firstRecs]

theorem run_firstPass (f : Method) (avg : Bool) (user : Kw) (ds : List (List Rat)) (hu : UserKw user) :
    (firstPass ds.length avg user).foldl (stepCall f ds) [] = firstRecs f avg user ds := by
  cases avg
  · have := run_block f ds [] user (userKw_refs user hu _) ds.length
    simpa [firstPass, firstRecs] using this
  · simp [firstPass, firstRecs, stepCall, resolveData]

/-- the whole trace of `collab_pls`: step 1, then one fit per data kwSet with the final dictionary resolved
against the fits of step 1 -/
theorem runCollab_trace (f : Method) (twoD : Bool) (method : String) (avg : Bool) (user : Kw) (ds : List (List Rat))
    (hu : UserKw user) :
    (runCollab f twoD method avg user ds).trace =
      firstRecs f avg user ds ++ (List.range ds.length).map fun i =>
        (⟨ds.getD i [], resolveKw (firstRecs f avg user ds) (finalKw (family twoD method) ds.length avg user),
          f ((if avg then 1 else ds.length) + i) (ds.getD i [])
            (resolveKw (firstRecs f avg user ds) (finalKw (family twoD method) ds.length avg user))⟩ : Rec) := by
  simp only [runCollab, runCalls, collabPlan, List.foldl_append]
  rw [run_firstPass f avg user ds hu]
  have hl := firstRecs_length f avg user ds
  have := run_block f ds (firstRecs f avg user ds) (finalKw (family twoD method) ds.length avg user)
    (by rw [hl]; exact finalKw_refs _ _ _ _ hu) ds.length
  rw [this, hl]

/-- `d[key]` of a resolved dictionary -/
def getArg : List (String × Arg) → String → Option Arg
  | [], _ => none
  | (k, w) :: t, key => if k = key then some w else getArg t key

theorem getArg_resolveKw (h : List Rec) (kw : Kw) (key : String) :
    getArg (resolveKw h kw) key = (kwGet kw key).map (resolve h) := by
  induction kw with
  | nil => rfl
  | cons p t ih =>
    obtain ⟨a, w⟩ := p
    by_cases hk : a = key
    · simp [resolveKw, getArg, kwGet, hk]
    · simpa [resolveKw, getArg, kwGet, hk] using ih

/-! ### one data set -/
theorem meanRows_singleton (r : List Rat) : meanRows [r] = r := by
  apply List.ext_getElem
  · simp [meanRows]
  · intro j h1 h2
    simp [meanRows, List.getD_eq_getElem?_getD, h2]


theorem avgW_refs (k : Nat) (avg : Bool) : ∀ c ∈ refs (avgW k avg), c < (if avg then 1 else k) := by
  cases avg <;> simp [avgW, refs]
theorem avgA_refs (k : Nat) (avg : Bool) : ∀ c ∈ refs (avgA k avg), c < (if avg then 1 else k) := by
  cases avg <;> simp [avgA, refs]

theorem kwGet_user (user : Kw) (hu : UserKw user) (key : String) (v : Val) (h : kwGet user key = some v) : ∃ t, v = .user t := by
  induction user with
  | nil => simp [kwGet] at h
  | cons p t ih =>
    obtain ⟨a, w⟩ := p
    by_cases hk : a = key
    · simp only [kwGet, hk, if_true, Option.some.injEq] at h
      subst h
      exact hu (a, w) List.mem_cons_self
    · simp only [kwGet, hk, if_false] at h
      exact ih (fun q hq => hu q (List.mem_cons_of_mem _ hq)) h

theorem resolve_user_indep (user : Kw) (hu : UserKw user) (key : String) (h h' : List Rec) :
    (kwGet user key).map (resolve h) = (kwGet user key).map (resolve h') := by
  cases hv : kwGet user key with
  | none => rfl
  | some v =>
    obtain ⟨t, rfl⟩ := kwGet_user user hu key v hv
    rfl

/-- the meaning of the plan for ANY wrapped method: there is one keyword dictionary `kw` such that every
reported baseline is the fit of its own data set with `kw`; `kw['weights']` is the reported
`average_weights`, `kw['alpha']` the reported `average_alpha` (aspls family), the keys written for the
method family hold `inf` / `True`, and every other key holds what the user gave -/
theorem runCollab_spec (f : Method) (twoD : Bool) (method : String) (avg : Bool) (user : Kw) (ds : List (List Rat))
    (hu : UserKw user) :
    ∃ kw : List (String × Arg),
      getArg kw "weights" = some (runCollab f twoD method avg user ds).avgWeights ∧
      ((family twoD method).calcAlpha = true → getArg kw "alpha" = (runCollab f twoD method avg user ds).avgAlpha) ∧
      ((family twoD method).calcAlpha = false → (runCollab f twoD method avg user ds).avgAlpha = none) ∧
      ((family twoD method).setTol = true → getArg kw "tol" = some .inf) ∧
      ((family twoD method).setTol2 = true → getArg kw "tol_2" = some .inf) ∧
      ((family twoD method).asMask = true → getArg kw "weights_as_mask" = some .true_) ∧
      (∀ key, key ∉ overridden (family twoD method) → getArg kw key = getArg (resolveKw [] user) key) ∧
      ∀ i, i < ds.length →
        (runCollab f twoD method avg user ds).trace.getD ((if avg then 1 else ds.length) + i) default =
          ⟨ds.getD i [], kw, f ((if avg then 1 else ds.length) + i) (ds.getD i []) kw⟩ ∧
        (runCollab f twoD method avg user ds).baselines.getD i [] =
          (f ((if avg then 1 else ds.length) + i) (ds.getD i []) kw).baseline := by
  have htr := runCollab_trace f twoD method avg user ds hu
  have hl := firstRecs_length f avg user ds
  refine ⟨resolveKw (firstRecs f avg user ds) (finalKw (family twoD method) ds.length avg user), ?_, ?_, ?_, ?_, ?_, ?_, ?_, ?_⟩
  · rw [getArg_resolveKw, finalKw_weights]
    have : (runCollab f twoD method avg user ds).avgWeights = resolve (runCollab f twoD method avg user ds).trace (avgW ds.length avg) := rfl
    rw [this, htr, resolve_append _ _ _ (by rw [hl]; exact avgW_refs _ _)]
    rfl
  · intro hc
    rw [getArg_resolveKw, finalKw_alpha _ _ _ _ hc]
    have : (runCollab f twoD method avg user ds).avgAlpha =
        some (resolve (runCollab f twoD method avg user ds).trace (avgA ds.length avg)) := by
      simp [runCollab, collabPlan, hc]
    rw [this, htr, resolve_append _ _ _ (by rw [hl]; exact avgA_refs _ _)]
    rfl
  · intro hc
    simp [runCollab, collabPlan, hc]
  · intro hc
    rw [getArg_resolveKw, finalKw_tol _ _ _ _ hc]
    rfl
  · intro hc
    rw [getArg_resolveKw, finalKw_tol2 _ _ _ _ hc]
    rfl
  · intro hc
    rw [getArg_resolveKw, finalKw_mask _ _ _ _ hc]
    rfl
  · intro key hk
    rw [getArg_resolveKw, getArg_resolveKw, finalKw_other _ _ _ _ _ hk]
    exact resolve_user_indep user hu key _ _
  · intro i hi
    have hrec : (runCollab f twoD method avg user ds).trace.getD ((if avg then 1 else ds.length) + i) default =
        ⟨ds.getD i [], resolveKw (firstRecs f avg user ds) (finalKw (family twoD method) ds.length avg user),
          f ((if avg then 1 else ds.length) + i) (ds.getD i [])
            (resolveKw (firstRecs f avg user ds) (finalKw (family twoD method) ds.length avg user))⟩ := by
      rw [htr, List.getD_eq_getElem?_getD, List.getElem?_append_right (by omega)]
      simp [hl, hi]
    refine ⟨hrec, ?_⟩
    have hb : (runCollab f twoD method avg user ds).baselines.getD i [] =
        (fitAt (runCollab f twoD method avg user ds).trace ((if avg then 1 else ds.length) + i)).baseline := by
      simp [runCollab, collabPlan, List.getD_eq_getElem?_getD, hi, firstPass_length, Nat.add_comm]
    rw [hb, fitAt, hrec]

/-- with a single data set both settings of `average_dataset` make the same two fits with the same
arguments and report the same things -/
theorem runCollab_single (f : Method) (twoD : Bool) (method : String) (user : Kw) (d : List Rat) (hu : UserKw user) :
    runCollab f twoD method true user [d] = runCollab f twoD method false user [d] := by
  have ht := runCollab_trace f twoD method true user [d] hu
  have hf := runCollab_trace f twoD method false user [d] hu
  have hfirst : firstRecs f true user [d] = firstRecs f false user [d] := by
    simp [firstRecs, meanRows_singleton]
  have hW : ∀ h : List Rec, resolve h (avgW 1 true) = resolve h (avgW 1 false) := by
    intro h
    simp [avgW, resolve, meanRows_singleton]
  have hA : ∀ h : List Rec, resolve h (avgA 1 true) = resolve h (avgA 1 false) := by
    intro h
    simp [avgA, resolve, meanRows_singleton]
  have hkw : ∀ h : List Rec, resolveKw h (finalKw (family twoD method) 1 true user) =
      resolveKw h (finalKw (family twoD method) 1 false user) := by
    intro h
    have hs : ∀ (d1 d2 : Kw) (key : String) (v1 v2 : Val), resolveKw h d1 = resolveKw h d2 → resolve h v1 = resolve h v2 →
        resolveKw h (kwSet d1 key v1) = resolveKw h (kwSet d2 key v2) := by
      intro d1
      induction d1 with
      | nil =>
        intro d2 key v1 v2 hd hv
        cases d2 with
        | nil => simp [resolveKw, kwSet, hv]
        | cons q t => simp [resolveKw] at hd
      | cons p t ih =>
        intro d2 key v1 v2 hd hv
        cases d2 with
        | nil => simp [resolveKw] at hd
        | cons q t2 =>
          obtain ⟨a, w⟩ := p
          obtain ⟨a2, w2⟩ := q
          simp only [resolveKw, List.map_cons, List.cons.injEq, Prod.mk.injEq] at hd
          obtain ⟨⟨ha, hw⟩, htl⟩ := hd
          subst ha
          by_cases hk : a = key
          · simp [kwSet, hk, resolveKw, hv]
            exact htl
          · have := ih t2 key v1 v2 htl hv
            simp [kwSet, hk, resolveKw, hw]
            exact this
    obtain ⟨a, b, c, e⟩ := family twoD method
    have h1 := hs user user "weights" _ _ rfl (hW h)
    cases a <;> cases b <;> cases c <;> cases e <;> simp only [finalKw, if_true, Bool.false_eq_true, if_false] <;>
      first
        | exact h1
        | (repeat' apply hs) <;> first | exact h1 | rfl | exact hA h | exact hW h
  have htrace : (runCollab f twoD method true user [d]).trace = (runCollab f twoD method false user [d]).trace := by
    rw [ht, hf, hfirst]
    simp [hkw]
  have key : ∀ (o1 o2 : Output), o1.trace = o2.trace → o1.baselines = o2.baselines → o1.avgWeights = o2.avgWeights →
      o1.avgAlpha = o2.avgAlpha → o1 = o2 := by
    intro o1 o2 h1 h2 h3 h4
    cases o1
    cases o2
    simp_all
  have htrace' : runCalls f [d] (collabPlan twoD method 1 true user).calls = runCalls f [d] (collabPlan twoD method 1 false user).calls := htrace
  apply key _ _ htrace
  · show List.map _ _ = List.map _ _
    simp only [List.length_singleton]
    rw [htrace']
    simp [collabPlan, firstPass]
  · simp only [runCollab, List.length_singleton]
    rw [htrace']
    exact hW _
  · simp only [runCollab, List.length_singleton]
    rw [htrace']
    cases (family twoD method).calcAlpha <;> simp [collabPlan, hA]

end PbVerif.Lemmas
