import Mathlib.Algebra.Order.Field.Rat
import Mathlib.Data.List.GetD
import PbVerif.Model.Axes
/-! Lemmas for the individual_axes planner (C20). -/
namespace PbVerif.Lemmas
open PbVerif.Axes

/-- an (m, n) array: m rows, each of length n -/
def RectMN (A : Mat) (m n : Nat) : Prop := A.length = m ∧ ∀ r ∈ A, r.length = n

def entry (A : Mat) (i j : Nat) : Rat := (A.getD i []).getD j 0

theorem rect_row {A : Mat} {m n : Nat} (h : RectMN A m n) (i : Nat) (hi : i < A.length) : A[i].length = n :=
  h.2 _ (List.getElem_mem hi)

theorem rect_getD {A : Mat} {m n : Nat} (h : RectMN A m n) (i : Nat) (hi : i < m) : (A.getD i []).length = n := by
  have hi' : i < A.length := by rw [h.1]; exact hi
  simp [List.getD_eq_getElem?_getD, hi', rect_row h i hi']

theorem entry_getElem (A : Mat) (i j : Nat) (hi : i < A.length) (hj : j < A[i].length) : entry A i j = A[i][j] := by
  simp [entry, List.getD_eq_getElem?_getD, hi, hj]

theorem mat_ext (A B : Mat) (m n : Nat) (hA : RectMN A m n) (hB : RectMN B m n)
    (h : ∀ i, i < m → ∀ j, j < n → entry A i j = entry B i j) : A = B := by
  apply List.ext_getElem (by rw [hA.1, hB.1])
  intro i h1 h2
  have r1 := rect_row hA i h1
  have r2 := rect_row hB i h2
  apply List.ext_getElem (by rw [r1, r2])
  intro j g1 g2
  have := h i (by rw [← hA.1]; exact h1) j (by rw [← r1]; exact g1)
  rwa [entry_getElem A i j h1 g1, entry_getElem B i j h2 g2] at this

/-! ### arrays given by their entries -/
def ofFn (m n : Nat) (g : Nat → Nat → Rat) : Mat := (List.range m).map fun i => (List.range n).map fun j => g i j

theorem rect_ofFn (m n : Nat) (g : Nat → Nat → Rat) : RectMN (ofFn m n g) m n := by
  refine ⟨by simp [ofFn], ?_⟩
  intro r hr
  simp only [ofFn, List.mem_map, List.mem_range] at hr
  obtain ⟨i, _, rfl⟩ := hr
  simp

theorem entry_ofFn (m n : Nat) (g : Nat → Nat → Rat) (i j : Nat) (hi : i < m) (hj : j < n) : entry (ofFn m n g) i j = g i j := by
  simp [entry, ofFn, List.getD_eq_getElem?_getD, hi, hj]

/-! ### element-wise operations -/
def zip2 (f : Rat → Rat → Rat) (A B : Mat) : Mat := List.zipWith (List.zipWith f) A B

theorem rect_zip2 (f : Rat → Rat → Rat) (A B : Mat) (m n : Nat) (hA : RectMN A m n) (hB : RectMN B m n) :
    RectMN (zip2 f A B) m n := by
  refine ⟨by simp [zip2, hA.1, hB.1], ?_⟩
  intro r hr
  obtain ⟨i, hi, rfl⟩ := List.mem_iff_getElem.mp hr
  have hi' : i < A.length ∧ i < B.length := by simpa [zip2] using hi
  simp [zip2, rect_row hA i hi'.1, rect_row hB i hi'.2]

theorem entry_zip2 (f : Rat → Rat → Rat) (A B : Mat) (m n : Nat) (hA : RectMN A m n) (hB : RectMN B m n)
    (i j : Nat) (hi : i < m) (hj : j < n) : entry (zip2 f A B) i j = f (entry A i j) (entry B i j) := by
  have hiA : i < A.length := by rw [hA.1]; exact hi
  have hiB : i < B.length := by rw [hB.1]; exact hi
  have rA := rect_row hA i hiA
  have rB := rect_row hB i hiB
  rw [entry_getElem A i j hiA (by rw [rA]; exact hj), entry_getElem B i j hiB (by rw [rB]; exact hj)]
  have hiZ : i < (zip2 f A B).length := by simp [zip2, hiA, hiB]
  rw [entry_getElem _ i j hiZ (by simp [zip2, rA, rB, hj])]
  simp [zip2]

theorem sub_eq_zip2 (A B : Mat) : sub A B = zip2 (· - ·) A B := rfl
theorem add_eq_zip2 (A B : Mat) : add A B = zip2 (· + ·) A B := rfl

theorem rect_zeros (m n : Nat) : RectMN (zeros m n) m n := by
  refine ⟨by simp [zeros], ?_⟩
  intro r hr
  simp only [zeros, List.mem_replicate] at hr
  rw [hr.2]
  simp

theorem entry_zeros (m n i j : Nat) : entry (zeros m n) i j = 0 := by
  unfold entry zeros
  by_cases hi : i < m
  · by_cases hj : j < n <;> simp [List.getD_eq_getElem?_getD, hi, hj]
  · simp [List.getD_eq_getElem?_getD, hi]

theorem sub_zeros (A : Mat) (m n : Nat) (hA : RectMN A m n) : sub A (zeros m n) = A := by
  apply mat_ext _ _ m n (rect_zip2 _ _ _ m n hA (rect_zeros m n)) hA
  intro i hi j hj
  rw [entry_zip2 _ _ _ m n hA (rect_zeros m n) i j hi hj, entry_zeros]
  simp

theorem zeros_add (A : Mat) (m n : Nat) (hA : RectMN A m n) : add (zeros m n) A = A := by
  apply mat_ext _ _ m n (rect_zip2 _ _ _ m n (rect_zeros m n) hA) hA
  intro i hi j hj
  rw [entry_zip2 _ _ _ m n (rect_zeros m n) hA i j hi hj, entry_zeros]
  simp

/-! ### columns, `apply_along_axis` -/
theorem col_length (A : Mat) (j : Nat) : (col A j).length = A.length := by simp [col]

theorem col_getD (A : Mat) (j i : Nat) : (col A j).getD i 0 = entry A i j := by
  unfold col entry
  by_cases hi : i < A.length
  · simp [List.getD_eq_getElem?_getD, hi]
  · simp [List.getD_eq_getElem?_getD, hi]

theorem ncols_rect (A : Mat) (m n : Nat) (hA : RectMN A m n) (hm : 0 < m) : ncols A = n := by
  have h0 : 0 < A.length := by rw [hA.1]; exact hm
  have := rect_row hA 0 h0
  cases A with
  | nil => simp at h0
  | cons r t => simpa [ncols] using this

/-- the 1-D method returns as many points as it is given (every 1-D method of the library: C01) -/
def LenPres (f : List Rat → List Rat) : Prop := ∀ v, (f v).length = v.length

theorem alongAxis0_eq (f : List Rat → List Rat) (A : Mat) (m n : Nat) (hA : RectMN A m n) (hm : 0 < m) (hn : 0 < n)
    (hf : LenPres f) : alongAxis f 0 A = ofFn m n fun i j => (f (col A j)).getD i 0 := by
  have hc := ncols_rect A m n hA hm
  simp only [alongAxis, if_true, hc]
  have hhead : (((List.range n).map fun j => f (col A j)).headD []).length = m := by
    obtain ⟨k, rfl⟩ : ∃ k, n = k + 1 := ⟨n - 1, by omega⟩
    simp [List.range_succ_eq_map, hf (col A 0), col_length, hA.1]
  rw [hhead]
  simp [ofFn]

theorem rect_alongAxis (f : List Rat → List Rat) (axis : Nat) (A : Mat) (m n : Nat) (hA : RectMN A m n) (hm : 0 < m) (hn : 0 < n)
    (hf : LenPres f) : RectMN (alongAxis f axis A) m n := by
  by_cases ha : axis = 0
  · subst ha
    rw [alongAxis0_eq f A m n hA hm hn hf]
    exact rect_ofFn _ _ _
  · simp only [alongAxis, ha, if_false]
    refine ⟨by simp [hA.1], ?_⟩
    intro r hr
    simp only [List.mem_map] at hr
    obtain ⟨a, ha', rfl⟩ := hr
    rw [hf a, hA.2 a ha']

theorem entry_alongAxis0 (f : List Rat → List Rat) (A : Mat) (m n : Nat) (hA : RectMN A m n) (hm : 0 < m) (hn : 0 < n)
    (hf : LenPres f) (i j : Nat) (hi : i < m) (hj : j < n) : entry (alongAxis f 0 A) i j = (f (col A j)).getD i 0 := by
  rw [alongAxis0_eq f A m n hA hm hn hf, entry_ofFn _ _ _ i j hi hj]

theorem entry_alongAxis1 (f : List Rat → List Rat) (axis : Nat) (ha : axis ≠ 0) (A : Mat) (m : Nat) (hA : A.length = m)
    (i j : Nat) (hi : i < m) : entry (alongAxis f axis A) i j = (f (A.getD i [])).getD j 0 := by
  have hi' : i < A.length := by rw [hA]; exact hi
  simp [alongAxis, ha, entry, List.getD_eq_getElem?_getD, hi']


/-! ### the loop -/
/-- the 1-D method returns as many points as it is given, whatever the coordinates and keyword arguments -/
def LenPres1 {α : Type} (fit : Fit1 α) : Prop := ∀ c k v, (fit c k v).length = v.length

/-- the partial baseline of a step -/
def partOf {α : Type} (fit : Fit1 α) (x z : List Rat) (data : Mat) (b : Mat) (s : Step α) : Mat :=
  alongAxis (fit (pick x z s.coord) s.kw) s.axis (sub data b)

theorem stepRun_eq {α : Type} (fit : Fit1 α) (x z : List Rat) (data : Mat) (acc : Mat × List (String × Mat)) (s : Step α) :
    stepRun fit x z data acc s = (add acc.1 (partOf fit x z data acc.1 s), acc.2 ++ [(s.key, partOf fit x z data acc.1 s)]) := rfl

theorem rect_partOf {α : Type} (fit : Fit1 α) (hf : LenPres1 fit) (x z : List Rat) (data : Mat) (m n : Nat)
    (hD : RectMN data m n) (hm : 0 < m) (hn : 0 < n) (b : Mat) (hb : RectMN b m n) (s : Step α) :
    RectMN (partOf fit x z data b s) m n :=
  rect_alongAxis _ _ _ m n (rect_zip2 _ _ _ m n hD hb) hm hn (hf _ _)

/-- invariant of the loop: the running baseline and every stored partial baseline have the data's shape -/
def ShapeInv (m n : Nat) (acc : Mat × List (String × Mat)) : Prop := RectMN acc.1 m n ∧ ∀ kp ∈ acc.2, RectMN kp.2 m n

theorem stepRun_shape {α : Type} (fit : Fit1 α) (hf : LenPres1 fit) (x z : List Rat) (data : Mat) (m n : Nat)
    (hD : RectMN data m n) (hm : 0 < m) (hn : 0 < n) (acc : Mat × List (String × Mat)) (hacc : ShapeInv m n acc) (s : Step α) :
    ShapeInv m n (stepRun fit x z data acc s) := by
  have hp := rect_partOf fit hf x z data m n hD hm hn acc.1 hacc.1 s
  rw [stepRun_eq]
  refine ⟨rect_zip2 _ _ _ m n hacc.1 hp, ?_⟩
  intro kp hkp
  simp only [List.mem_append, List.mem_singleton] at hkp
  rcases hkp with h | h
  · exact hacc.2 kp h
  · rw [h]
    exact hp

theorem foldl_shape {α : Type} (fit : Fit1 α) (hf : LenPres1 fit) (x z : List Rat) (data : Mat) (m n : Nat)
    (hD : RectMN data m n) (hm : 0 < m) (hn : 0 < n) (steps : List (Step α)) (acc : Mat × List (String × Mat)) (hacc : ShapeInv m n acc) :
    ShapeInv m n (steps.foldl (stepRun fit x z data) acc) := by
  induction steps generalizing acc with
  | nil => exact hacc
  | cons s t ih => exact ih _ (stepRun_shape fit hf x z data m n hD hm hn acc hacc s)

theorem init_eq (data : Mat) (m n : Nat) (hD : RectMN data m n) (hm : 0 < m) : zeros data.length (ncols data) = zeros m n := by
  rw [hD.1, ncols_rect data m n hD hm]

theorem runSteps_shape {α : Type} (fit : Fit1 α) (hf : LenPres1 fit) (x z : List Rat) (data : Mat) (m n : Nat)
    (hD : RectMN data m n) (hm : 0 < m) (hn : 0 < n) (steps : List (Step α)) : ShapeInv m n (runSteps fit x z data steps) := by
  unfold runSteps
  rw [init_eq data m n hD hm]
  exact foldl_shape fit hf x z data m n hD hm hn steps _ ⟨rect_zeros m n, by simp⟩

/-! ### the plan -/
theorem plan_one {α : Type} (empty : α) (a : Nat) (kw : KwArg α) (k : α) (hk : pairKwargs empty 1 kw = .ok [k]) :
    individualAxesPlan empty (.one a) kw = .ok [⟨a, coordOf a, k, keyOf a⟩] := by
  simp [individualAxesPlan, normAxes, hk]

theorem plan_two {α : Type} (empty : α) (a b : Nat) (hab : a ≠ b) (kw : KwArg α) (k0 k1 : α)
    (hk : pairKwargs empty 2 kw = .ok [k0, k1]) :
    individualAxesPlan empty (.two a b) kw = .ok [⟨a, coordOf a, k0, keyOf a⟩, ⟨b, coordOf b, k1, keyOf b⟩] := by
  simp [individualAxesPlan, normAxes, hab, hk]

theorem run_one {α : Type} (fit : Fit1 α) (hf : LenPres1 fit) (x z : List Rat) (data : Mat) (m n : Nat)
    (hD : RectMN data m n) (hm : 0 < m) (hn : 0 < n) (s0 : Step α) :
    runSteps fit x z data [s0] = (partOf fit x z data (zeros m n) s0, [(s0.key, partOf fit x z data (zeros m n) s0)]) := by
  have hP0 : RectMN (partOf fit x z data (zeros m n) s0) m n := rect_partOf fit hf x z data m n hD hm hn _ (rect_zeros m n) s0
  simp only [runSteps, List.foldl_cons, List.foldl_nil, stepRun_eq, init_eq data m n hD hm, zeros_add _ m n hP0, List.nil_append]

theorem run_two {α : Type} (fit : Fit1 α) (hf : LenPres1 fit) (x z : List Rat) (data : Mat) (m n : Nat)
    (hD : RectMN data m n) (hm : 0 < m) (hn : 0 < n) (s0 s1 : Step α) :
    runSteps fit x z data [s0, s1] =
      (add (runSteps fit x z data [s0]).1 (runSteps fit x z (sub data (runSteps fit x z data [s0]).1) [s1]).1,
        (runSteps fit x z data [s0]).2 ++ (runSteps fit x z (sub data (runSteps fit x z data [s0]).1) [s1]).2) := by
  have hP0 : RectMN (partOf fit x z data (zeros m n) s0) m n := rect_partOf fit hf x z data m n hD hm hn _ (rect_zeros m n) s0
  have hD1 : RectMN (sub data (partOf fit x z data (zeros m n) s0)) m n := rect_zip2 _ _ _ m n hD hP0
  rw [run_one fit hf x z data m n hD hm hn s0]
  simp only
  rw [run_one fit hf x z _ m n hD1 hm hn s1]
  have e1 : partOf fit x z (sub data (partOf fit x z data (zeros m n) s0)) (zeros m n) s1 =
      partOf fit x z data (partOf fit x z data (zeros m n) s0) s1 := by
    show alongAxis _ _ (sub (sub data (partOf fit x z data (zeros m n) s0)) (zeros m n)) = alongAxis _ _ _
    rw [sub_zeros _ m n hD1]
  rw [e1]
  simp only [runSteps, List.foldl_cons, List.foldl_nil, stepRun_eq, init_eq data m n hD hm, zeros_add _ m n hP0, List.nil_append,
    List.cons_append]

/-- axes (a, b) = axis a, then axis b on what axis a left over -/
theorem two_eq_one_then_one {α : Type} (fit : Fit1 α) (hf : LenPres1 fit) (empty : α) (x z : List Rat) (data : Mat) (m n : Nat)
    (hD : RectMN data m n) (hm : 0 < m) (hn : 0 < n) (a b : Nat) (hab : a ≠ b) (k0 k1 : α) :
    ∃ (B0 B1 : Mat) (P0 P1 : List (String × Mat)),
      individualAxes fit empty x z data (.one a) (.dict k0) = .ok (B0, P0) ∧
      individualAxes fit empty x z (sub data B0) (.one b) (.dict k1) = .ok (B1, P1) ∧
      individualAxes fit empty x z data (.two a b) (.seq [k0, k1]) = .ok (add B0 B1, P0 ++ P1) := by
  refine ⟨(runSteps fit x z data [⟨a, coordOf a, k0, keyOf a⟩]).1,
    (runSteps fit x z (sub data (runSteps fit x z data [⟨a, coordOf a, k0, keyOf a⟩]).1) [⟨b, coordOf b, k1, keyOf b⟩]).1,
    (runSteps fit x z data [⟨a, coordOf a, k0, keyOf a⟩]).2,
    (runSteps fit x z (sub data (runSteps fit x z data [⟨a, coordOf a, k0, keyOf a⟩]).1) [⟨b, coordOf b, k1, keyOf b⟩]).2, ?_, ?_, ?_⟩
  · simp only [individualAxes, plan_one empty a (.dict k0) k0 (by simp [pairKwargs])]
  · simp only [individualAxes, plan_one empty b (.dict k1) k1 (by simp [pairKwargs])]
  · simp only [individualAxes, plan_two empty a b hab (.seq [k0, k1]) k0 k1 (by simp [pairKwargs])]
    rw [run_two fit hf x z data m n hD hm hn]

theorem foldl_ext' {α β : Type} (f g : α → β → α) (l : List β) (a : α) (H : ∀ a : α, ∀ b ∈ l, f a b = g a b) :
    l.foldl f a = l.foldl g a := by
  induction l generalizing a with
  | nil => rfl
  | cons b t ih =>
    simp only [List.foldl_cons]
    rw [H a b List.mem_cons_self]
    exact ih _ (fun a' b' hb' => H a' b' (List.mem_cons_of_mem _ hb'))

/-- a single axis: only that axis' coordinate vector is used -/
theorem one_axis_coord {α : Type} (fit : Fit1 α) (empty : α) (x z x' z' : List Rat) (data : Mat) (a : Nat) (kw : KwArg α)
    (h : if a = 0 then x = x' else z = z') :
    individualAxes fit empty x z data (.one a) kw = individualAxes fit empty x' z' data (.one a) kw := by
  unfold individualAxes individualAxesPlan
  simp only [normAxes, List.length_singleton]
  cases hk : pairKwargs empty 1 kw with
  | error e => rfl
  | ok kws =>
    simp only
    congr 1
    unfold runSteps
    apply foldl_ext'
    intro acc st hst
    simp only [List.mem_map] at hst
    obtain ⟨pr, hpr, rfl⟩ := hst
    have hax : pr.1 = a := by
      have := (List.of_mem_zip hpr).1
      simpa using this
    simp only [stepRun, hax]
    by_cases ha : a = 0
    · simp only [ha, if_true] at h
      simp [coordOf, ha, pick, h]
    · simp only [ha, if_false] at h
      simp [coordOf, ha, pick, h]

/-! ### pairing of `method_kwargs` with the axes -/
theorem pairKwargs_length {α : Type} (empty : α) (num : Nat) (kw : KwArg α) (kws : List α) (h : pairKwargs empty num kw = .ok kws) :
    kws.length = num := by
  cases kw with
  | none => simp [pairKwargs] at h; rw [← h]; simp
  | dict d => simp [pairKwargs] at h; rw [← h]; simp
  | seq l =>
    simp only [pairKwargs] at h
    split at h
    · simp at h; rw [← h]; simp
    · split at h
      · simp at h; rw [← h]; simp
      · split at h
        · simp at h
        · rename_i h1 h2 h3
          simp at h
          rw [← h]
          simpa using h3

theorem pairKwargs_spec {α : Type} (empty : α) (num : Nat) :
    pairKwargs empty num .none = .ok (List.replicate num empty) ∧
    (∀ d, pairKwargs empty num (.dict d) = .ok (List.replicate num d)) ∧
    pairKwargs empty num (.seq []) = .ok (List.replicate num empty) ∧
    (∀ d, pairKwargs empty num (.seq [d]) = .ok (List.replicate num d)) ∧
    (∀ l : List α, 2 ≤ l.length → l.length = num → pairKwargs empty num (.seq l) = .ok l) ∧
    (∀ l : List α, 2 ≤ l.length → l.length ≠ num → pairKwargs empty num (.seq l) = .error .valueError) := by
  refine ⟨rfl, fun _ => rfl, by simp [pairKwargs], fun d => by simp [pairKwargs], ?_, ?_⟩
  · intro l h2 hn
    subst hn
    have h0 : l.length ≠ 0 := by omega
    have h1 : l.length ≠ 1 := by omega
    simp [pairKwargs, h0, h1]
  · intro l h2 hn
    have h0 : l.length ≠ 0 := by omega
    have h1 : l.length ≠ 1 := by omega
    simp only [pairKwargs, h0, h1, if_false]
    simp [hn]

theorem plan_step {α : Type} (empty : α) (axes : AxesArg) (kw : KwArg α) (ax : List Nat) (kws : List α)
    (ha : normAxes axes = .ok ax) (hk : pairKwargs empty ax.length kw = .ok kws) (i : Nat) (hi : i < ax.length) :
    ∃ steps, individualAxesPlan empty axes kw = .ok steps ∧ steps.length = ax.length ∧
      ∃ hs : i < steps.length, steps[i].axis = ax[i] ∧ steps[i].coord = coordOf ax[i] ∧ steps[i].key = keyOf ax[i] ∧
        steps[i].kw = kws[i]'(by rw [pairKwargs_length empty _ kw kws hk]; exact hi) := by
  have hl := pairKwargs_length empty _ kw kws hk
  refine ⟨(ax.zip kws).map fun p => ⟨p.1, coordOf p.1, p.2, keyOf p.1⟩, by simp [individualAxesPlan, ha, hk], by simp [hl],
    by simp [hl, hi], ?_⟩
  simp

/-! ### fancy indexing -/
theorem rect_take2 (p s : List Nat) (A : Mat) : RectMN (take2 p s A) p.length s.length := by
  refine ⟨by simp [take2], ?_⟩
  intro r hr
  simp only [take2, List.mem_map] at hr
  obtain ⟨i, _, rfl⟩ := hr
  simp

theorem row_take2 (p s : List Nat) (A : Mat) (a : Nat) (ha : a < p.length) :
    (take2 p s A).getD a [] = take1 s (A.getD (p.getD a 0) []) := by
  simp [take2, take1, List.getD_eq_getElem?_getD, ha]

theorem entry_take2 (p s : List Nat) (A : Mat) (a b : Nat) (ha : a < p.length) (hb : b < s.length) :
    entry (take2 p s A) a b = entry A (p.getD a 0) (s.getD b 0) := by
  unfold entry
  rw [row_take2 p s A a ha]
  simp [take1, List.getD_eq_getElem?_getD, hb]

theorem getD_mem_lt (p : List Nat) (m : Nat) (hpm : ∀ i ∈ p, i < m) (a : Nat) (ha : a < p.length) : p.getD a 0 < m := by
  have : p.getD a 0 = p[a] := by simp [List.getD_eq_getElem?_getD, ha]
  rw [this]
  exact hpm _ (List.getElem_mem ha)

theorem take2_zip2 (f : Rat → Rat → Rat) (p s : List Nat) (A B : Mat) (m n : Nat) (hA : RectMN A m n) (hB : RectMN B m n)
    (hpm : ∀ i ∈ p, i < m) (hsn : ∀ j ∈ s, j < n) :
    zip2 f (take2 p s A) (take2 p s B) = take2 p s (zip2 f A B) := by
  apply mat_ext _ _ p.length s.length (rect_zip2 _ _ _ _ _ (rect_take2 p s A) (rect_take2 p s B)) (rect_take2 p s _)
  intro a ha b hb
  rw [entry_zip2 _ _ _ _ _ (rect_take2 p s A) (rect_take2 p s B) a b ha hb, entry_take2 _ _ _ a b ha hb, entry_take2 _ _ _ a b ha hb,
    entry_take2 _ _ _ a b ha hb, entry_zip2 f A B m n hA hB _ _ (getD_mem_lt p m hpm a ha) (getD_mem_lt s n hsn b hb)]

theorem take2_zeros (p s : List Nat) (m n : Nat) : take2 p s (zeros m n) = zeros p.length s.length := by
  apply mat_ext _ _ p.length s.length (rect_take2 p s _) (rect_zeros _ _)
  intro a ha b hb
  rw [entry_take2 _ _ _ a b ha hb, entry_zeros, entry_zeros]

theorem col_take2 (p s : List Nat) (A : Mat) (b : Nat) (hb : b < s.length) :
    col (take2 p s A) b = take1 p (col A (s.getD b 0)) := by
  apply List.ext_getElem (by simp [col, take2, take1])
  intro a h1 h2
  have ha : a < p.length := by simpa [col, take2] using h1
  have e1 : (col (take2 p s A) b)[a] = (col (take2 p s A) b).getD a 0 := by
    simp [List.getD_eq_getElem?_getD, h1]
  have e2 : (take1 p (col A (s.getD b 0)))[a] = (col A (s.getD b 0)).getD (p.getD a 0) 0 := by
    simp [take1, List.getD_eq_getElem?_getD, ha]
  rw [e1, e2, col_getD, col_getD, entry_take2 _ _ _ a b ha hb]

theorem take1_getD (p : List Nat) (v : List Rat) (a : Nat) (ha : a < p.length) : (take1 p v).getD a 0 = v.getD (p.getD a 0) 0 := by
  simp [take1, List.getD_eq_getElem?_getD, ha]

/-- `apply_along_axis` commutes with re-ordering rows and columns when the 1-D function commutes with the
re-ordering of the axis it works along -/
theorem alongAxis_take2 (g g' : List Rat → List Rat) (hg : LenPres g) (hg' : LenPres g') (axis : Nat) (p s : List Nat) (R : Mat) (m n : Nat)
    (hR : RectMN R m n) (hm : 0 < m) (hn : 0 < n) (hp : p.length = m) (hs : s.length = n)
    (hpm : ∀ i ∈ p, i < m) (hsn : ∀ j ∈ s, j < n)
    (hcomm : if axis = 0 then ∀ v, v.length = m → g' (take1 p v) = take1 p (g v)
             else ∀ v, v.length = n → g' (take1 s v) = take1 s (g v)) :
    alongAxis g' axis (take2 p s R) = take2 p s (alongAxis g axis R) := by
  have hT : RectMN (take2 p s R) m n := by
    have := rect_take2 p s R
    rwa [hp, hs] at this
  have hL := rect_alongAxis g' axis _ m n hT hm hn hg'
  have hRr : RectMN (take2 p s (alongAxis g axis R)) m n := by
    have := rect_take2 p s (alongAxis g axis R)
    rwa [hp, hs] at this
  apply mat_ext _ _ m n hL hRr
  intro a ha b hb
  have ha' : a < p.length := by rw [hp]; exact ha
  have hb' : b < s.length := by rw [hs]; exact hb
  have hpa := getD_mem_lt p m hpm a ha'
  have hsb := getD_mem_lt s n hsn b hb'
  rw [entry_take2 _ _ _ a b ha' hb']
  by_cases hax : axis = 0
  · subst hax
    simp only [if_true] at hcomm
    rw [entry_alongAxis0 g' _ m n hT hm hn hg' a b ha hb, entry_alongAxis0 g R m n hR hm hn hg _ _ hpa hsb,
      col_take2 p s R b hb', hcomm _ (by rw [col_length, hR.1]), take1_getD p _ a ha']
  · simp only [hax, if_false] at hcomm
    rw [entry_alongAxis1 g' axis hax _ m hT.1 a b ha, entry_alongAxis1 g axis hax R m hR.1 _ _ hpa,
      row_take2 p s R a ha', hcomm _ (rect_getD hR _ hpa), take1_getD s _ b hb']

/-- re-ordered result -/
def reorder (p s : List Nat) (acc : Mat × List (String × Mat)) : Mat × List (String × Mat) :=
  (take2 p s acc.1, acc.2.map fun kp => (kp.1, take2 p s kp.2))

/-- what C02 gives for every 1-D method: re-ordering coordinates and data together re-orders the baseline -/
def Equivariant {α : Type} (fit : Fit1 α) (p : List Nat) (c : List Rat) : Prop :=
  ∀ k v, v.length = p.length → fit (take1 p c) k (take1 p v) = take1 p (fit c k v)

theorem stepRun_take2 {α : Type} (fit : Fit1 α) (hf : LenPres1 fit) (x z : List Rat) (data : Mat) (m n : Nat)
    (hD : RectMN data m n) (hm : 0 < m) (hn : 0 < n) (p s : List Nat) (hp : p.length = m) (hs : s.length = n)
    (hpm : ∀ i ∈ p, i < m) (hsn : ∀ j ∈ s, j < n) (hx : Equivariant fit p x) (hz : Equivariant fit s z)
    (acc : Mat × List (String × Mat)) (hacc : RectMN acc.1 m n) (st : Step α) (hst : st.coord = coordOf st.axis) :
    stepRun fit (take1 p x) (take1 s z) (take2 p s data) (reorder p s acc) st = reorder p s (stepRun fit x z data acc st) := by
  have hsub : sub (take2 p s data) (take2 p s acc.1) = take2 p s (sub data acc.1) := take2_zip2 _ p s _ _ m n hD hacc hpm hsn
  have hR : RectMN (sub data acc.1) m n := rect_zip2 _ _ _ m n hD hacc
  have hpart : partOf fit (take1 p x) (take1 s z) (take2 p s data) (take2 p s acc.1) st = take2 p s (partOf fit x z data acc.1 st) := by
    unfold partOf
    rw [hsub]
    apply alongAxis_take2 _ _ (hf _ _) (hf _ _) st.axis p s _ m n hR hm hn hp hs hpm hsn
    rw [hst]
    by_cases hax : st.axis = 0
    · simp only [hax, if_true, coordOf, pick]
      intro v hv
      exact hx st.kw v (by rw [hv, hp])
    · simp only [hax, if_false, coordOf, pick]
      intro v hv
      exact hz st.kw v (by rw [hv, hs])
  have hP : RectMN (partOf fit x z data acc.1 st) m n := rect_partOf fit hf x z data m n hD hm hn _ hacc st
  rw [stepRun_eq, stepRun_eq]
  simp only [reorder, List.map_append, List.map_cons, List.map_nil]
  rw [hpart]
  have hadd : add (take2 p s acc.1) (take2 p s (partOf fit x z data acc.1 st)) = take2 p s (add acc.1 (partOf fit x z data acc.1 st)) :=
    take2_zip2 _ p s _ _ m n hacc hP hpm hsn
  rw [hadd]

theorem foldl_take2 {α : Type} (fit : Fit1 α) (hf : LenPres1 fit) (x z : List Rat) (data : Mat) (m n : Nat)
    (hD : RectMN data m n) (hm : 0 < m) (hn : 0 < n) (p s : List Nat) (hp : p.length = m) (hs : s.length = n)
    (hpm : ∀ i ∈ p, i < m) (hsn : ∀ j ∈ s, j < n) (hx : Equivariant fit p x) (hz : Equivariant fit s z)
    (steps : List (Step α)) (hsteps : ∀ st ∈ steps, st.coord = coordOf st.axis)
    (acc : Mat × List (String × Mat)) (hacc : ShapeInv m n acc) :
    steps.foldl (stepRun fit (take1 p x) (take1 s z) (take2 p s data)) (reorder p s acc) =
      reorder p s (steps.foldl (stepRun fit x z data) acc) := by
  induction steps generalizing acc with
  | nil => rfl
  | cons st t ih =>
    simp only [List.foldl_cons]
    rw [stepRun_take2 fit hf x z data m n hD hm hn p s hp hs hpm hsn hx hz acc hacc.1 st (hsteps st List.mem_cons_self)]
    exact ih (fun q hq => hsteps q (List.mem_cons_of_mem _ hq)) _ (stepRun_shape fit hf x z data m n hD hm hn acc hacc st)

theorem plan_coords {α : Type} (empty : α) (axes : AxesArg) (kw : KwArg α) (steps : List (Step α))
    (h : individualAxesPlan empty axes kw = .ok steps) : ∀ st ∈ steps, st.coord = coordOf st.axis ∧ st.key = keyOf st.axis := by
  unfold individualAxesPlan at h
  cases ha : normAxes axes with
  | error e => simp [ha] at h
  | ok ax =>
    cases hk : pairKwargs empty ax.length kw with
    | error e => simp [ha, hk] at h
    | ok kws =>
      simp only [ha, hk, Except.ok.injEq] at h
      subst h
      intro st hst
      simp only [List.mem_map] at hst
      obtain ⟨pr, _, rfl⟩ := hst
      exact ⟨rfl, rfl⟩

/-- supplying x, z and the data in another order (rows re-ordered by `p`, columns by `s`) re-orders the
baseline and every partial baseline in the same way -/
theorem individualAxes_take2 {α : Type} (fit : Fit1 α) (hf : LenPres1 fit) (empty : α) (x z : List Rat) (data : Mat) (m n : Nat)
    (hD : RectMN data m n) (hm : 0 < m) (hn : 0 < n) (p s : List Nat) (hp : p.length = m) (hs : s.length = n)
    (hpm : ∀ i ∈ p, i < m) (hsn : ∀ j ∈ s, j < n) (hx : Equivariant fit p x) (hz : Equivariant fit s z)
    (axes : AxesArg) (kw : KwArg α) :
    individualAxes fit empty (take1 p x) (take1 s z) (take2 p s data) axes kw =
      (individualAxes fit empty x z data axes kw).map (reorder p s) := by
  unfold individualAxes
  cases hpl : individualAxesPlan empty axes kw with
  | error e => rfl
  | ok steps =>
    simp only [Except.map]
    congr 1
    unfold runSteps
    have hT : RectMN (take2 p s data) m n := by
      have := rect_take2 p s data
      rwa [hp, hs] at this
    rw [init_eq _ m n hT hm, init_eq data m n hD hm]
    have h0 : reorder p s (zeros m n, []) = (zeros m n, ([] : List (String × Mat))) := by
      simp [reorder, take2_zeros, hp, hs]
    have := foldl_take2 fit hf x z data m n hD hm hn p s hp hs hpm hsn hx hz steps
      (fun st hst => (plan_coords empty axes kw steps hpl st hst).1) (zeros m n, []) ⟨rect_zeros m n, by simp⟩
    rw [h0] at this
    exact this

end PbVerif.Lemmas
