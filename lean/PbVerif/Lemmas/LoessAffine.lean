import PbVerif.Lemmas.Loess
import PbVerif.Model.LoessKern
import PbVerif.Lemmas.BSplineAffine
/-! C19: `_determine_fits` and `_fill_skips` are invariant under an increasing affine map `t ↦ a·t + b` of the
x-axis (with `delta` scaled by `a`): every test of the selection compares differences of x-values (and `delta`),
the chord interpolation uses a ratio of such differences.  Proofs. -/
set_option linter.unusedVariables false
namespace PbVerif.Lemmas.LoessAffine
open PbVerif.Loess PbVerif.Lemmas PbVerif.Lemmas.Affine

/-- two oracles answer alike on every question `_determine_fits` can ask for `n` points: `skip i lastFit` with
`lastFit < i`, `i + 1 < n`; `adv i l r` with `l ≤ r < n` (the loop tests `right < num_x` first), `i + 1 < n`; `tail` -/
structure Agree (n : Nat) (o o' : Oracle) : Prop where
  skip : ∀ i lf, lf < i → i + 1 < n → o.skip i lf = o'.skip i lf
  adv : ∀ i l r, i + 1 < n → l ≤ r → r < n → o.adv i l r = o'.adv i l r
  tail : o.tail = o'.tail

theorem advance_congr (o o' : Oracle) (n i : Nat) (h : ∀ l r, l ≤ r → r < n → o.adv i l r = o'.adv i l r) :
    ∀ f l r, l ≤ r → advance o n i f l r = advance o' n i f l r ∧ (advance o n i f l r).1 ≤ (advance o n i f l r).2 := by
  intro f
  induction f with
  | zero => intro l r hlr; exact ⟨rfl, hlr⟩
  | succ f ih =>
    intro l r hlr
    unfold advance
    by_cases hr : r < n
    · rw [← h l r hlr hr]
      by_cases hc : r < n ∧ o.adv i l r = true
      · rw [if_pos hc, if_pos hc]; exact ih (l + 1) (r + 1) (by omega)
      · rw [if_neg hc, if_neg hc]; exact ⟨rfl, hlr⟩
    · rw [if_neg (fun hc => hr hc.1), if_neg (fun hc => hr hc.1)]; exact ⟨rfl, hlr⟩

theorem fitSt_congr (o o' : Oracle) (n i : Nat) (s1 : St)
    (h : ∀ l r, l ≤ r → r < n → o.adv i l r = o'.adv i l r) (hlr : s1.left ≤ s1.right) :
    fitSt o n i s1 = fitSt o' n i s1 ∧ (fitSt o n i s1).left ≤ (fitSt o n i s1).right ∧
      (fitSt o n i s1).lastFit = s1.lastFit := by
  have := advance_congr o o' n i h n s1.left s1.right hlr
  unfold fitSt
  simp only [this.1]
  exact ⟨trivial, (this.1 ▸ this.2), trivial⟩

/-- loop invariant: the last fitted index is not ahead of the loop index, the window is an interval -/
def Inv (i : Nat) (s : St) : Prop := s.lastFit ≤ i ∧ s.left ≤ s.right

theorem iter_congr (o o' : Oracle) (n : Nat) (check : Bool) (hag : Agree n o o') (i : Nat) (s : St)
    (hi : i + 2 < n) (hs : Inv i s) :
    iter o n check s (i + 1) = iter o' n check s (i + 1) ∧ Inv (i + 1) (iter o n check s (i + 1)) := by
  rw [iter_eq, iter_eq, ← hag.skip (i + 1) s.lastFit (by have := hs.1; omega) (by omega)]
  have hadv : ∀ l r, l ≤ r → r < n → o.adv (i + 1) l r = o'.adv (i + 1) l r :=
    fun l r h1 h2 => hag.adv (i + 1) l r (by omega) h1 h2
  by_cases hc : (check && o.skip (i + 1) s.lastFit) = true
  · rw [if_pos hc, if_pos hc]
    exact ⟨rfl, by have := hs.1; show s.lastFit ≤ i + 1; omega, hs.2⟩
  · rw [if_neg hc, if_neg hc]
    cases check with
    | true =>
      simp only [if_true]
      have := fitSt_congr o o' n (i + 1)
        { s with lastFit := i + 1,
                 skips := if s.skipStart ≠ 0 then s.skips ++ [(s.skipStart - 1, i + 1 + 1)] else s.skips,
                 skipStart := 0 } hadv hs.2
      exact ⟨this.1, by rw [Inv, this.2.2]; exact ⟨Nat.le_refl _, this.2.1⟩⟩
    | false =>
      simp only [Bool.false_eq_true, if_false]
      have := fitSt_congr o o' n (i + 1) s hadv hs.2
      exact ⟨this.1, by rw [Inv, this.2.2]; exact ⟨by have := hs.1; omega, this.2.1⟩⟩

theorem loop_congr (o o' : Oracle) (n tp : Nat) (check : Bool) (hag : Agree n o o') (m : Nat) (hm : m + 2 ≤ n) :
    ((List.range m).map (· + 1)).foldl (iter o n check) (st0 tp) =
      ((List.range m).map (· + 1)).foldl (iter o' n check) (st0 tp) ∧
    Inv m (((List.range m).map (· + 1)).foldl (iter o n check) (st0 tp)) := by
  induction m with
  | zero => exact ⟨rfl, Nat.le_refl _, Nat.zero_le _⟩
  | succ k ih =>
    have ih := ih (by omega)
    rw [loop_succ, List.foldl_append, List.foldl_append]
    simp only [List.foldl_cons, List.foldl_nil]
    rw [← ih.1]
    exact iter_congr o o' n check hag k _ (by omega) ih.2

/-- `_determine_fits` depends on the data only through the answers to the questions it can ask -/
theorem determineFits_congr (o o' : Oracle) (n tp : Nat) (check : Bool) (hag : Agree n o o') :
    determineFits o n tp check = determineFits o' n tp check := by
  rw [determineFits_eq, determineFits_eq]
  have hl : loop o n tp check = loop o' n tp check := by
    by_cases hn : 2 ≤ n
    · exact (loop_congr o o' n tp check hag (n - 2) (by omega)).1
    · have : n - 2 = 0 := by omega
      simp only [loop, this, List.range_zero, List.map_nil, List.foldl_nil]
  have hsp : ∀ s, special o n tp s = special o' n tp s := by
    intro s; simp only [special, hag.tail]
  rw [hl, hsp]

/-! ### the real comparisons -/

theorem aff_add_lt (a b : Rat) (ha : 0 < a) (s t d : Rat) : aff a b s < aff a b t + a * d ↔ s < t + d := by
  have : aff a b t + a * d = aff a b (t + d) := by simp only [aff]; ring
  rw [this, aff_lt a b ha]

theorem aff_sub_lt (a b : Rat) (ha : 0 < a) (p q r s : Rat) :
    aff a b p - aff a b q < aff a b r - aff a b s ↔ p - q < r - s := by
  have h1 : aff a b p - aff a b q = a * (p - q) := by simp only [aff]; ring
  have h2 : aff a b r - aff a b s = a * (r - s) := by simp only [aff]; ring
  rw [h1, h2]
  exact mul_lt_mul_iff_right₀ ha

theorem realOracle_agree (a b : Rat) (ha : 0 < a) (x : List Rat) (tp : Nat) (delta : Rat) (hn : 1 ≤ x.length)
    (htp : 1 ≤ tp) :
    Agree x.length (realOracle (x.map (aff a b)) tp (a * delta)) (realOracle x tp delta) := by
  refine ⟨?_, ?_, ?_⟩
  · intro i lf h1 h2
    simp only [realOracle]
    rw [decide_eq_decide, getD_map_aff a b x (i + 1) h2, getD_map_aff a b x lf (by omega)]
    exact aff_add_lt a b ha _ _ _
  · intro i l r h1 h2 h3
    simp only [realOracle]
    rw [decide_eq_decide, getD_map_aff a b x i (by omega), getD_map_aff a b x l (by omega), getD_map_aff a b x r h3]
    exact aff_sub_lt a b ha _ _ _ _
  · simp only [realOracle, List.length_map]
    rw [decide_eq_decide, getD_map_aff a b x (x.length - 1) (by omega), getD_map_aff a b x (x.length - 2) (by omega),
      getD_map_aff a b x (x.length - tp) (by omega)]
    exact aff_sub_lt a b ha _ _ _ _

theorem determineFitsX_aff (a b : Rat) (ha : 0 < a) (x : List Rat) (tp : Nat) (delta : Rat) (hn : 1 ≤ x.length)
    (htp : 1 ≤ tp) :
    determineFitsX (x.map (aff a b)) tp (a * delta) = determineFitsX x tp delta := by
  simp only [determineFitsX, List.length_map]
  have hd : decide (a * delta > 0) = decide (delta > 0) := by
    rw [decide_eq_decide]
    exact ⟨fun h => (pos_iff_pos_of_mul_pos h).mp ha, fun h => mul_pos ha h⟩
  rw [hd]
  exact determineFits_congr _ _ x.length tp _ (realOracle_agree a b ha x tp delta hn htp)

/-! ### `_fill_skips` -/

theorem chord_aff (a : Rat) (ha : a ≠ 0) (u v d : Rat) : a * u * (v / (a * d)) = u * (v / d) := by
  by_cases hz : d = 0
  · subst hz; simp
  · field_simp

theorem fillSkips_aff (a b : Rat) (ha : a ≠ 0) (x y : List Rat) (skips : List (Nat × Nat)) (hlen : x.length = y.length)
    (hs : ∀ p ∈ skips, p.1 < p.2 ∧ p.2 ≤ x.length) :
    fillSkips (x.map (aff a b)) y skips = fillSkips x y skips := by
  unfold fillSkips
  induction skips generalizing y with
  | nil => rfl
  | cons p ps ih =>
    simp only [List.foldl_cons]
    obtain ⟨l, r⟩ := p
    have hp := hs (l, r) (List.mem_cons_self)
    simp only at hp
    have hstep : ((List.range y.length).map fun k =>
          if l < k ∧ k + 1 < r then y.getD l 0 + ((x.map (aff a b)).getD k 0 - (x.map (aff a b)).getD l 0) *
            ((y.getD (r - 1) 0 - y.getD l 0) / ((x.map (aff a b)).getD (r - 1) 0 - (x.map (aff a b)).getD l 0))
          else y.getD k 0) =
        ((List.range y.length).map fun k =>
          if l < k ∧ k + 1 < r then y.getD l 0 + (x.getD k 0 - x.getD l 0) *
            ((y.getD (r - 1) 0 - y.getD l 0) / (x.getD (r - 1) 0 - x.getD l 0))
          else y.getD k 0) := by
      apply List.map_congr_left
      intro k hk
      by_cases hc : l < k ∧ k + 1 < r
      · rw [if_pos hc, if_pos hc, getD_map_aff a b x k (by omega), getD_map_aff a b x l (by omega),
          getD_map_aff a b x (r - 1) (by omega)]
        congr 1
        have h1 : aff a b (x.getD k 0) - aff a b (x.getD l 0) = a * (x.getD k 0 - x.getD l 0) := by simp only [aff]; ring
        have h2 : aff a b (x.getD (r - 1) 0) - aff a b (x.getD l 0) = a * (x.getD (r - 1) 0 - x.getD l 0) := by
          simp only [aff]; ring
        rw [h1, h2]
        exact chord_aff a ha _ _ _
      · rw [if_neg hc, if_neg hc]
    rw [hstep]
    exact ih _ (by simp [hlen]) (fun p hp' => hs p (List.mem_cons_of_mem _ hp'))

end PbVerif.Lemmas.LoessAffine

/-! ### the tricube kernel of a local fit (`_loess_low_memory` / `_loess_first_loop`) -/
namespace PbVerif.Lemmas.LoessAffine
open PbVerif.LoessKern PbVerif.Lemmas.Affine

theorem rabs_aff (sqrt : Rat → Rat) (a b : Rat) (ha : 0 < a) (t u : Rat) :
    (ratNum sqrt).abs ((ratNum sqrt).sub (aff a b t) (aff a b u)) = a * (ratNum sqrt).abs ((ratNum sqrt).sub t u) := by
  simp only [ratNum, aff]
  have h : a * t + b - (a * u + b) = a * (t - u) := by ring
  rw [h]
  by_cases hc : t - u < 0
  · rw [if_pos hc, if_pos (mul_neg_of_pos_of_neg ha hc)]; ring
  · rw [if_neg hc, if_neg (by intro h'; exact hc (by by_contra hn; exact absurd h' (not_lt.mpr (mul_nonneg ha.le (not_lt.mp hn)))))]

theorem slice_map {α β : Type} (f : α → β) (v : List α) (l r : Nat) : slice (v.map f) l r = (slice v l r).map f := by
  simp only [slice, List.map_drop, List.map_take]

theorem diffs_aff (sqrt : Rat → Rat) (a b : Rat) (ha : 0 < a) (x : List Rat) (i left right : Nat) (hi : i < x.length) :
    diffs (ratNum sqrt) (x.map (aff a b)) i left right = (diffs (ratNum sqrt) x i left right).map (a * ·) := by
  simp only [diffs, slice_map, List.map_map]
  apply List.map_congr_left
  intro t _
  have hz : (ratNum sqrt).zero = 0 := rfl
  simp only [Function.comp, hz]
  rw [getD_map_aff a b x i hi]
  exact rabs_aff sqrt a b ha t _

theorem headD_map_mul (a : Rat) (l : List Rat) : (l.map (a * ·)).headD 0 = a * l.headD 0 := by
  cases l <;> simp
theorem getLastD_map_mul (a : Rat) (l : List Rat) : (l.map (a * ·)).getLastD 0 = a * l.getLastD 0 := by
  rw [List.getLastD_eq_getLast?, List.getLastD_eq_getLast?, List.getLast?_map]
  cases l.getLast? <;> simp

theorem pyMax_mul (sqrt : Rat → Rat) (a : Rat) (ha : 0 < a) (u v : Rat) :
    pyMax (ratNum sqrt) (a * u) (a * v) = a * pyMax (ratNum sqrt) u v := by
  simp only [pyMax, ratNum, decide_eq_true_eq, mul_lt_mul_iff_right₀ ha]
  split <;> rfl

theorem kernelDen_aff (sqrt : Rat → Rat) (a b : Rat) (ha : 0 < a) (x : List Rat) (i left right : Nat) (hi : i < x.length) :
    kernelDen (ratNum sqrt) (x.map (aff a b)) i left right = a * kernelDen (ratNum sqrt) x i left right := by
  have hz : (ratNum sqrt).zero = 0 := rfl
  simp only [kernelDen, diffs_aff sqrt a b ha x i left right hi, hz, headD_map_mul, getLastD_map_mul, pyMax_mul sqrt a ha]

theorem tricube_mul (sqrt : Rat → Rat) (a : Rat) (ha : a ≠ 0) (m d : Rat) :
    tricubeSqrt (ratNum sqrt) (a * m) (a * d) = tricubeSqrt (ratNum sqrt) m d := by
  simp only [tricubeSqrt, ratNum, mul_div_mul_left d m ha]

theorem kernelOf_aff (sqrt : Rat → Rat) (a b : Rat) (ha : 0 < a) (x : List Rat) (i left right : Nat) (hi : i < x.length) :
    kernelOf (ratNum sqrt) (x.map (aff a b)) i left right = kernelOf (ratNum sqrt) x i left right := by
  simp only [kernelOf, kernelDen_aff sqrt a b ha x i left right hi, diffs_aff sqrt a b ha x i left right hi, List.map_map]
  apply List.map_congr_left
  intro d _
  exact tricube_mul sqrt a (ne_of_gt ha) _ d

end PbVerif.Lemmas.LoessAffine
