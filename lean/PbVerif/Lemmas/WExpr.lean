import Mathlib.Algebra.Order.Field.Basic
import Mathlib.Tactic.Linarith
import Mathlib.Tactic.Ring
import PbVerif.Model.WExpr
import PbVerif.Gen.WeightExprs
import PbVerif.Lemmas.Weighting
/-! Lemmas for C09, Route A: the weight expression TRANSLATED FROM THE SOURCE TEXT of `_weighting.py` on every run
(`Gen/WeightExprs.lean`) denotes, over every ordered field with any `exp`/`sqrt`/`abs`, the per-point function of the
hand model (`Model/Weighting.lean`) at the same statistics.  These proofs are re-checked against the regenerated file on
every run: an edited constant, sign or operator in the source makes the corresponding `gen_<rule>_eq_model` fail. -/
namespace PbVerif.Lemmas
open PbVerif.Weighting PbVerif.WExpr PbVerif.Gen

variable {α : Type} [Field α] [LinearOrder α] [T : Transc α]

omit [Field α] T in
theorem pmax_eq_max (a b : α) : pmax a b = max a b := by
  unfold pmax
  split_ifs with h
  · exact (max_eq_right h.le).symm
  · exact (max_eq_left (not_lt.mp h)).symm
omit [Field α] T in
theorem pmin_eq_min (a b : α) : pmin a b = min a b := by
  unfold pmin
  split_ifs with h
  · exact (min_eq_right h.le).symm
  · exact (min_eq_left (not_lt.mp h)).symm

omit T in
/-- `np.clip(a, 0, M)` written as `min(max(a, 0), M)` is the model's three-way clip when `0 ≤ M` -/
theorem clip_eq (a M : α) (hM : 0 ≤ M) :
    pmin (pmax a 0) M = if a < 0 then 0 else if M < a then M else a := by
  unfold pmin pmax
  by_cases ha : a < 0
  · rw [if_pos ha, if_pos ha, if_neg (not_lt.mpr hM)]
  · rw [if_neg ha, if_neg ha]

/-- normalisation of `eval` on a closed expression: unfold, turn literal casts into numerals -/
macro "wexpr_unfold" : tactic =>
  `(tactic| simp only [eval, evalN, Nat.cast_ofNat, Nat.cast_zero, Nat.cast_one, pow_two, neg_div, neg_mul, mul_neg])
/-- ... and, when that does not already close the goal, ring normalisation of both sides (harmless re-association
or re-ordering of the source's arithmetic) -/
macro "wexpr_close" : tactic => `(tactic| (wexpr_unfold <;> try ring_nf))

theorem gen_asls_eq_model (env : Env α) : eval env Src.asls = aslsW (env.s "p") env.r := by
  unfold Src.asls aslsW; wexpr_close

theorem gen_arpls_eq_model (env : Env α) :
    eval env Src.arpls = arplsW (env.s "std") (env.s "meanNeg") env.r := by
  unfold Src.arpls arplsW; wexpr_close

theorem gen_aspls_eq_model (env : Env α) :
    eval env Src.aspls = asplsW (env.s "asymmetric_coef") (env.s "std") env.r := by
  unfold Src.aspls asplsW; wexpr_close

theorem gen_drpls_eq_model (env : Env α) :
    eval env Src.drpls = drplsW (expK (env.n "iteration")) (env.s "std") (env.s "meanNeg") env.r := by
  unfold Src.drpls drplsW expK capIter; wexpr_close

theorem gen_lsrpls_eq_model (env : Env α) :
    eval env Src.lsrpls = drplsW (tenK (env.n "iteration")) (env.s "std") (env.s "meanNeg") env.r := by
  unfold Src.lsrpls drplsW tenK; wexpr_close

theorem gen_iarpls_eq_model (env : Env α) :
    eval env Src.iarpls = iarplsW (expK (env.n "iteration")) (env.s "std") env.r := by
  unfold Src.iarpls iarplsW expK capIter; wexpr_close

theorem gen_psalsa_eq_model (env : Env α) :
    eval env Src.psalsa = psalsaW (env.s "p") (env.s "k") env.r := by
  unfold Src.psalsa psalsaW; wexpr_close

theorem gen_derpsalsa_eq_model (env : Env α) :
    eval env Src.derpsalsa = derpsalsaW (env.s "p") (env.s "k") (env.s "partial_weights") env.r := by
  unfold Src.derpsalsa derpsalsaW; wexpr_close

theorem gen_quantile_eq_model (env : Env α) :
    eval env Src.quantile = quantileW (env.s "quantile") (max (env.s "eps") (env.s "minFloat")) env.r := by
  unfold Src.quantile quantileW; wexpr_unfold; rw [pmax_eq_max]

/-- airpls without normalisation.  `0 ≤ clipMax` (the source's `log_max - spacing(log_max)` ≈ 709.78) is what makes
`np.clip(·, 0, clipMax)` the three-way clip of the model. -/
theorem gen_airpls_eq_model (env : Env α) (hM : 0 ≤ env.s "clipMax") :
    eval env Src.airpls = airplsRaw (airplsT (env.n "iteration")) (env.s "sumNeg") (env.s "clipMax") env.r := by
  unfold Src.airpls airplsRaw airplsT capIter; wexpr_unfold; rw [clip_eq _ _ hM]

/-- airpls with `normalize_weights`: the raw weight divided by the largest raw weight of the negative residuals -/
theorem gen_airplsNorm_eq_model (env : Env α) (hM : 0 ≤ env.s "clipMax") :
    eval env Src.airplsNorm =
      airplsRaw (airplsT (env.n "iteration")) (env.s "sumNeg") (env.s "clipMax") env.r / env.s "maxNegW" := by
  unfold Src.airplsNorm airplsRaw airplsT capIter; wexpr_unfold; rw [clip_eq _ _ hM]
  by_cases hr : env.r < 0
  · simp only [if_pos hr]
  · simp only [if_neg hr, zero_div]


/-! ### the proved properties, transferred to the translated source expressions -/
section transfer
variable [IsStrictOrderedRing α] (hT : TranscOk T)
include hT
set_option linter.unusedSectionVars false

/-- the same inputs at another residual -/
abbrev atR (env : Env α) (r : α) : Env α := { env with r := r }

theorem expK_pos (it : Nat) : 0 < (expK it : α) := hT.exp_pos _
omit hT in
theorem tenK_nonneg (it : Nat) : 0 ≤ (tenK it : α) := by
  unfold tenK; exact pow_nonneg (Nat.cast_nonneg _) _
omit hT in
theorem airplsT_nonneg (it : Nat) : 0 ≤ (airplsT it : α) := by
  unfold airplsT capIter; exact Nat.cast_nonneg _

theorem src_asls_range (env : Env α) (hp : 0 ≤ env.s "p" ∧ env.s "p" ≤ 1) :
    0 ≤ eval env Src.asls ∧ eval env Src.asls ≤ 1 := by
  rw [gen_asls_eq_model]; exact asls_range hT _ _ hp
theorem src_asls_antitone (env : Env α) (r₁ r₂ : α) (hp : env.s "p" ≤ 1 - env.s "p") (h : r₁ ≤ r₂) :
    eval (atR env r₂) Src.asls ≤ eval (atR env r₁) Src.asls := by
  rw [gen_asls_eq_model, gen_asls_eq_model]; exact asls_antitone hT _ _ _ hp h

theorem src_arpls_range (env : Env α) : 0 ≤ eval env Src.arpls ∧ eval env Src.arpls ≤ 1 := by
  rw [gen_arpls_eq_model]; exact arpls_range hT _ _ _
theorem src_arpls_antitone (env : Env α) (r₁ r₂ : α) (hs : 0 < env.s "std") (h : r₁ ≤ r₂) :
    eval (atR env r₂) Src.arpls ≤ eval (atR env r₁) Src.arpls := by
  rw [gen_arpls_eq_model, gen_arpls_eq_model]; exact arpls_antitone hT _ _ _ _ hs h

theorem src_aspls_range (env : Env α) : 0 ≤ eval env Src.aspls ∧ eval env Src.aspls ≤ 1 := by
  rw [gen_aspls_eq_model]; exact aspls_range hT _ _ _
theorem src_aspls_antitone (env : Env α) (r₁ r₂ : α) (hk : 0 ≤ env.s "asymmetric_coef") (hs : 0 < env.s "std")
    (h : r₁ ≤ r₂) : eval (atR env r₂) Src.aspls ≤ eval (atR env r₁) Src.aspls := by
  rw [gen_aspls_eq_model, gen_aspls_eq_model]; exact aspls_antitone hT _ _ _ _ hk hs h

theorem src_drpls_range (env : Env α) : 0 ≤ eval env Src.drpls ∧ eval env Src.drpls ≤ 1 := by
  rw [gen_drpls_eq_model]; exact drpls_range hT _ _ _ _
theorem src_drpls_antitone (env : Env α) (r₁ r₂ : α) (hs : 0 < env.s "std") (h : r₁ ≤ r₂) :
    eval (atR env r₂) Src.drpls ≤ eval (atR env r₁) Src.drpls := by
  rw [gen_drpls_eq_model, gen_drpls_eq_model]; exact drpls_antitone hT _ _ _ _ _ (expK_pos hT _).le hs h

theorem src_lsrpls_range (env : Env α) : 0 ≤ eval env Src.lsrpls ∧ eval env Src.lsrpls ≤ 1 := by
  rw [gen_lsrpls_eq_model]; exact drpls_range hT _ _ _ _
theorem src_lsrpls_antitone (env : Env α) (r₁ r₂ : α) (hs : 0 < env.s "std") (h : r₁ ≤ r₂) :
    eval (atR env r₂) Src.lsrpls ≤ eval (atR env r₁) Src.lsrpls := by
  rw [gen_lsrpls_eq_model, gen_lsrpls_eq_model]; exact drpls_antitone hT _ _ _ _ _ (tenK_nonneg _) hs h

theorem src_iarpls_range (env : Env α) : 0 ≤ eval env Src.iarpls ∧ eval env Src.iarpls ≤ 1 := by
  rw [gen_iarpls_eq_model]; exact iarpls_range hT _ _ _
theorem src_iarpls_antitone (env : Env α) (r₁ r₂ : α) (hs : 0 < env.s "std") (h : r₁ ≤ r₂) :
    eval (atR env r₂) Src.iarpls ≤ eval (atR env r₁) Src.iarpls := by
  rw [gen_iarpls_eq_model, gen_iarpls_eq_model]; exact iarpls_antitone hT _ _ _ _ (expK_pos hT _).le hs h

theorem src_psalsa_range (env : Env α) (hp : 0 ≤ env.s "p" ∧ env.s "p" ≤ 1) (hk : 0 < env.s "k") :
    0 ≤ eval env Src.psalsa ∧ eval env Src.psalsa ≤ 1 := by
  rw [gen_psalsa_eq_model]; exact psalsa_range hT _ _ _ hp hk
theorem src_psalsa_antitone (env : Env α) (r₁ r₂ : α) (hp : 0 ≤ env.s "p" ∧ env.s "p" ≤ 1 - env.s "p")
    (hk : 0 < env.s "k") (h : r₁ ≤ r₂) : eval (atR env r₂) Src.psalsa ≤ eval (atR env r₁) Src.psalsa := by
  rw [gen_psalsa_eq_model, gen_psalsa_eq_model]; exact psalsa_antitone hT _ _ _ _ hp hk h

theorem src_derpsalsa_range (env : Env α) (hp : 0 ≤ env.s "p" ∧ env.s "p" ≤ 1) (hk : 0 < env.s "k")
    (hpw : 0 ≤ env.s "partial_weights" ∧ env.s "partial_weights" ≤ 1) :
    0 ≤ eval env Src.derpsalsa ∧ eval env Src.derpsalsa ≤ 1 := by
  rw [gen_derpsalsa_eq_model]; exact derpsalsa_range hT _ _ _ _ hp hk hpw
theorem src_derpsalsa_antitone (env : Env α) (r₁ r₂ : α) (hp : 0 ≤ env.s "p" ∧ env.s "p" ≤ 1 - env.s "p")
    (hk : 0 < env.s "k") (hpw : 0 ≤ env.s "partial_weights") (h : r₁ ≤ r₂) :
    eval (atR env r₂) Src.derpsalsa ≤ eval (atR env r₁) Src.derpsalsa := by
  rw [gen_derpsalsa_eq_model, gen_derpsalsa_eq_model]; exact derpsalsa_antitone hT _ _ _ _ _ hp hk hpw h

theorem src_airpls_nonneg (env : Env α) (hM : 0 ≤ env.s "clipMax") : 0 ≤ eval env Src.airpls := by
  rw [gen_airpls_eq_model env hM]; exact airpls_nonneg hT _ _ _ _
theorem src_airpls_antitone (env : Env α) (r₁ r₂ : α) (hS : env.s "sumNeg" < 0) (hM : 0 ≤ env.s "clipMax")
    (h : r₁ ≤ r₂) : eval (atR env r₂) Src.airpls ≤ eval (atR env r₁) Src.airpls := by
  rw [gen_airpls_eq_model (atR env r₂) hM, gen_airpls_eq_model (atR env r₁) hM]
  exact airpls_antitone hT _ _ _ _ _ (airplsT_nonneg _) hS hM h
theorem src_airplsNorm_range (env : Env α) (hM : 0 ≤ env.s "clipMax") (hmx : 0 < env.s "maxNegW")
    (hle : eval env Src.airpls ≤ env.s "maxNegW") :
    0 ≤ eval env Src.airplsNorm ∧ eval env Src.airplsNorm ≤ 1 := by
  rw [gen_airpls_eq_model env hM] at hle
  rw [gen_airplsNorm_eq_model env hM]; exact airpls_normalised_le_one hT _ _ _ _ _ hmx hle
theorem src_airplsNorm_antitone (env : Env α) (r₁ r₂ : α) (hS : env.s "sumNeg" < 0) (hM : 0 ≤ env.s "clipMax")
    (hmx : 0 < env.s "maxNegW") (h : r₁ ≤ r₂) :
    eval (atR env r₂) Src.airplsNorm ≤ eval (atR env r₁) Src.airplsNorm := by
  rw [gen_airplsNorm_eq_model (atR env r₂) hM, gen_airplsNorm_eq_model (atR env r₁) hM]
  exact div_le_div_of_nonneg_right (airpls_antitone hT _ _ _ _ _ (airplsT_nonneg _) hS hM h) hmx.le

theorem src_quantile_bounds (env : Env α) (hq : 0 < env.s "quantile" ∧ env.s "quantile" < 1)
    (hmin : 0 < env.s "minFloat") :
    0 < eval env Src.quantile ∧
      eval env Src.quantile * Transc.sqrt (max (env.s "eps") (env.s "minFloat")) ≤
        max (env.s "quantile") (1 - env.s "quantile") := by
  have he : 0 < max (env.s "eps") (env.s "minFloat") := lt_of_lt_of_le hmin (le_max_right _ _)
  rw [gen_quantile_eq_model]
  exact ⟨quantile_pos hT _ _ _ hq he, quantile_bound hT _ _ _ hq he⟩

end transfer

/-! ### concrete inputs for the non-vacuity examples of Props/C09 (a computable stand-in over ℚ; the real functions
are `realTransc`, `Lemmas/WeightingReal.lean`) -/
/-- a positive increasing `exp` with `exp 0 = 1` on ℚ; `sqrt` is a placeholder (no rational square root exists) -/
@[reducible] def ratTransc : Transc ℚ := ⟨fun x => if x ≤ 0 then 1 / (1 - x) else 1 + x, fun x => x, fun x => |x|⟩
/-- inputs satisfying every hypothesis of the `src_*` theorems: std 2, mean of the negatives −1, their sum −4, p 1/100, … -/
def envQ (r : ℚ) : Env ℚ :=
  ⟨r, fun x => if x = "std" then 2 else if x = "meanNeg" then -1 else if x = "sumNeg" then -4 else if x = "clipMax" then 700
    else if x = "maxNegW" then 8 else if x = "minFloat" then 1 / 1000 else if x = "p" then 1 / 100 else if x = "k" then 2
    else if x = "asymmetric_coef" then 1 / 2 else if x = "quantile" then 1 / 4 else if x = "partial_weights" then 1 / 2 else 0,
   fun _ => 3⟩

end PbVerif.Lemmas
