import PbVerif.Lemmas.Pad
/-! Helper lemmas for the 2-D part of C18 (`utils._extrapolate2d`, `pad_edges2d`).

Everything goes through *tabulated* matrices `tab P Q f` (`P` rows, `Q` columns, entry `f i j`):
every rectangular matrix is one (`eq_tab`), and row padding, column padding, transposition and the
corner averaging all map tabulated matrices to tabulated matrices (`padRows_tab`, `padCols_tab`,
`avg2_tab`), which gives the master formula `extrapolate2d_tab`. -/
namespace PbVerif.Lemmas
open PbVerif.Pad

/-- the `P × Q` matrix with entries `f i j` -/
def tab (P Q : Nat) (f : Nat → Nat → Rat) : List (List Rat) :=
  (List.range P).map fun i => (List.range Q).map fun j => f i j

/-- entry `(i, j)`, `0` outside -/
def ent (m : List (List Rat)) (i j : Nat) : Rat := (m.getD i []).getD j 0

theorem tab_length (P Q : Nat) (f : Nat → Nat → Rat) : (tab P Q f).length = P := by simp [tab]

theorem tab_row_length (P Q : Nat) (f : Nat → Nat → Rat) : ∀ row ∈ tab P Q f, row.length = Q := by
  intro row h
  simp only [tab, List.mem_map, List.mem_range] at h
  obtain ⟨i, _, rfl⟩ := h
  simp

theorem tab_getD (P Q : Nat) (f : Nat → Nat → Rat) (i : Nat) (hi : i < P) :
    (tab P Q f).getD i [] = (List.range Q).map fun j => f i j := by
  simp [tab, List.getD_eq_getElem?_getD, hi]

theorem range_map_getD (Q : Nat) (g : Nat → Rat) (j : Nat) (hj : j < Q) :
    ((List.range Q).map g).getD j 0 = g j := by
  simp [List.getD_eq_getElem?_getD, hj]

theorem ent_tab (P Q : Nat) (f : Nat → Nat → Rat) (i j : Nat) (hi : i < P) (hj : j < Q) :
    ent (tab P Q f) i j = f i j := by
  unfold ent
  rw [tab_getD P Q f i hi, range_map_getD Q _ j hj]

theorem tab_congr (P Q : Nat) (f g : Nat → Nat → Rat) (h : ∀ i j, i < P → j < Q → f i j = g i j) :
    tab P Q f = tab P Q g := by
  unfold tab
  apply List.map_congr_left
  intro i hi
  apply List.map_congr_left
  intro j hj
  exact h i j (List.mem_range.mp hi) (List.mem_range.mp hj)

/-- every rectangular matrix is the table of its entries -/
theorem eq_tab (y : List (List Rat)) (M N : Nat) (hM : y.length = M) (hrect : ∀ row ∈ y, row.length = N) :
    y = tab M N (ent y) := by
  apply List.ext_getElem
  · rw [tab_length, hM]
  · intro i h1 h2
    have hi : i < M := by omega
    have hrow : (y[i]).length = N := hrect _ (List.getElem_mem h1)
    have hg : y.getD i [] = y[i] := by simp [List.getD_eq_getElem?_getD, h1]
    simp only [tab, List.getElem_map, List.getElem_range, ent, hg]
    rw [← hrow]
    exact (map_getD_range (y[i])).symm

/-! ### transposition -/
theorem colOf_tab (P Q : Nat) (f : Nat → Nat → Rat) (j : Nat) (hj : j < Q) :
    colOf (tab P Q f) j = (List.range P).map fun i => f i j := by
  unfold colOf tab
  rw [List.map_map]
  apply List.map_congr_left
  intro i _
  exact range_map_getD Q _ j hj

theorem transposeR_tab (P Q : Nat) (f : Nat → Nat → Rat) (hP : 1 ≤ P) :
    transposeR (tab P Q f) = tab Q P fun j i => f i j := by
  obtain ⟨P', rfl⟩ : ∃ P', P = P' + 1 := ⟨P - 1, by omega⟩
  have hcons : tab (P' + 1) Q f = ((List.range Q).map fun j => f 0 j) :: (tab (P' + 1) Q f).tail := by
    unfold tab
    rw [List.range_succ_eq_map]
    simp
  have hlen : ((List.range Q).map fun j => f 0 j).length = Q := by simp
  rw [hcons]
  unfold transposeR
  simp only [hlen]
  rw [← hcons]
  show (List.range Q).map (colOf (tab (P' + 1) Q f)) = _
  unfold tab
  apply List.map_congr_left
  intro j hj
  exact colOf_tab (P' + 1) Q f j (List.mem_range.mp hj)

/-! ### row and column padding of a table -/
/-- entry `l` of row `i` padded along axis 1 -/
def rowExt (N pad wl wr : Nat) (f : Nat → Nat → Rat) (i l : Nat) : Rat :=
  (padEdges ((List.range N).map fun j => f i j) pad (min wl N) (min wr N)).getD l 0
/-- entry `k` of column `j` padded along axis 0 -/
def colExt (M pad wt wb : Nat) (f : Nat → Nat → Rat) (k j : Nat) : Rat :=
  (padEdges ((List.range M).map fun i => f i j) pad (min wt M) (min wb M)).getD k 0

theorem padRows_tab (P Q pad wl wr : Nat) (f : Nat → Nat → Rat) :
    padRows (tab P Q f) pad wl wr = tab P (Q + 2 * pad) (rowExt Q pad wl wr f) := by
  unfold padRows tab
  rw [List.map_map]
  apply List.map_congr_left
  intro i _
  simp only [Function.comp_def, List.length_map, List.length_range]
  have hl := padEdges_length ((List.range Q).map fun j => f i j) pad (min wl Q) (min wr Q)
  simp only [List.length_map, List.length_range] at hl
  conv_lhs => rw [← map_getD_range (padEdges ((List.range Q).map fun j => f i j) pad (min wl Q) (min wr Q))]
  rw [hl]
  rfl

theorem padCols_tab (P Q pad wt wb : Nat) (f : Nat → Nat → Rat) (hP : 1 ≤ P) (hQ : 1 ≤ Q) :
    padCols (tab P Q f) pad wt wb = tab (P + 2 * pad) Q (colExt P pad wt wb f) := by
  unfold padCols
  rw [transposeR_tab P Q f hP, padRows_tab, transposeR_tab _ _ _ hQ]
  rfl

theorem zipWith_map_same' {α β : Type} (f : β → β → β) (g h : α → β) (l : List α) :
    List.zipWith f (l.map g) (l.map h) = l.map fun i => f (g i) (h i) := by
  induction l with
  | nil => simp
  | cons x l ih => simp [ih]

theorem avg2_tab (P Q : Nat) (f g : Nat → Nat → Rat) :
    avg2 (tab P Q f) (tab P Q g) = tab P Q fun i j => (f i j + g i j) / 2 := by
  unfold avg2 tab
  rw [zipWith_map_same']
  apply List.map_congr_left
  intro i _
  rw [zipWith_map_same']

/-- the master formula: `_extrapolate2d` of a table, entry by entry -/
theorem extrapolate2d_tab (M N pr pc wt wb wl wr : Nat) (f : Nat → Nat → Rat) (hM : 1 ≤ M) (hN : 1 ≤ N) :
    extrapolate2d (tab M N f) pr pc wt wb wl wr =
      tab (M + 2 * pr) (N + 2 * pc) fun k l =>
        (colExt M pr wt wb (rowExt N pc wl wr f) k l + rowExt N pc wl wr (colExt M pr wt wb f) k l) / 2 := by
  unfold extrapolate2d
  rw [padRows_tab, padCols_tab _ _ _ _ _ _ hM (by omega), padCols_tab _ _ _ _ _ _ hM hN, padRows_tab, avg2_tab]

/-! ### 1-D facts needed per side -/
theorem getEdges_left_one (ys : List Rat) (pad wr : Nat) :
    (getEdges ys pad 1 wr).1 = List.replicate pad (ys.getD 0 0) := by
  unfold getEdges
  simp

theorem getEdges_right_one (ys : List Rat) (pad wl : Nat) :
    (getEdges ys pad wl 1).2 = List.replicate pad (ys.getD (ys.length - 1) 0) := by
  unfold getEdges
  simp

theorem getEdges_left_linear (a b : Rat) (ys : List Rat) (pad wl wr : Nat) (hn : 2 ≤ ys.length) (hwl : 2 ≤ wl)
    (hy : ∀ i, i < ys.length → ys.getD i 0 = a + b * (((pad + i : Nat) : Int) : Rat)) :
    (getEdges ys pad wl wr).1 = (List.range pad).map fun (k : Nat) => a + b * (((k : Nat) : Int) : Rat) := by
  have h1 : wl ≠ 1 := by omega
  have hL : lsLine (ys.take wl) (pad : Int) = (a, b) := by
    apply lsLine_of_getD
    · rw [List.length_take]; omega
    · intro i hi
      rw [List.length_take] at hi
      have := hy i (by omega)
      rw [List.getD_eq_getElem?_getD] at this ⊢
      rw [List.getElem?_take, if_pos (by omega), this]
      push_cast; rfl
  unfold getEdges
  simp only [h1, if_false, hL, evalLine]

theorem getEdges_right_linear (a b : Rat) (ys : List Rat) (pad wl wr : Nat) (hn : 2 ≤ ys.length) (hwr : 2 ≤ wr)
    (hy : ∀ i, i < ys.length → ys.getD i 0 = a + b * (((pad + i : Nat) : Int) : Rat)) :
    (getEdges ys pad wl wr).2 =
      (List.range pad).map fun (k : Nat) => a + b * (((pad + ys.length + k : Nat) : Int) : Rat) := by
  have h2 : wr ≠ 1 := by omega
  have hR : lsLine (ys.drop (ys.length - wr)) ((pad + (ys.length - (ys.drop (ys.length - wr)).length) : Nat) : Int) = (a, b) := by
    apply lsLine_of_getD
    · rw [List.length_drop]; omega
    · intro i hi
      rw [List.length_drop] at hi ⊢
      have := hy (ys.length - wr + i) (by omega)
      rw [List.getD_eq_getElem?_getD] at this ⊢
      rw [List.getElem?_drop, this]
      congr 3
      omega
  unfold getEdges
  simp only [h2, if_false, hR, evalLine]

/-- truncating the windows to the data length (what the 2-D code does by slicing the Vandermonde
matrix) changes nothing as soon as there are two points: the 1-D rule only looks at `take`/`drop` -/
theorem padEdges_min_window (ys : List Rat) (pad wl wr : Nat) (hn : 2 ≤ ys.length) :
    padEdges ys pad (min wl ys.length) (min wr ys.length) = padEdges ys pad wl wr := by
  have ht : ys.take (min wl ys.length) = ys.take wl := by
    by_cases h : wl ≤ ys.length
    · rw [Nat.min_eq_left h]
    · rw [Nat.min_eq_right (by omega), List.take_of_length_le (Nat.le_refl _), List.take_of_length_le (by omega)]
  have hd : ys.length - min wr ys.length = ys.length - wr := by omega
  have c1 : (min wl ys.length = 1) = (wl = 1) := by apply propext; omega
  have c2 : (min wr ys.length = 1) = (wr = 1) := by apply propext; omega
  unfold padEdges getEdges
  simp only [ht, hd, c1, c2]

theorem clampIdx_id (pad n wl wr k : Nat) (hn : 2 ≤ n) (hwl : 2 ≤ wl) (hwr : 2 ≤ wr) : clampIdx pad n wl wr k = k := by
  have h1 : min wl n ≠ 1 := by omega
  have h2 : min wr n ≠ 1 := by omega
  unfold clampIdx
  simp [h1, h2]

theorem clampIdx_one (pad n wl wr k : Nat) (hn : 1 ≤ n) (hl : min wl n = 1) (hr : min wr n = 1) :
    clampIdx pad n wl wr k = max pad (min k (pad + n - 1)) := by
  unfold clampIdx
  simp only [hl, hr, if_true]
  by_cases h1 : k < pad
  · simp only [h1, if_true]; omega
  · by_cases h2 : pad + n ≤ k
    · simp only [h1, h2, if_false, if_true]; omega
    · simp only [h1, h2, if_false]; omega

theorem range_three (n pad : Nat) (g : Nat → Rat) :
    (List.range (n + 2 * pad)).map g =
      (List.range pad).map g ++ (List.range n).map (fun i => g (pad + i)) ++ (List.range pad).map (fun k => g (pad + n + k)) := by
  have hr : n + 2 * pad = pad + n + pad := by omega
  rw [hr, List.range_add, List.range_add, List.map_append, List.map_append, List.map_map, List.map_map]
  rfl

theorem replicate_eq_map_range (pad : Nat) (c : Rat) : List.replicate pad c = (List.range pad).map fun _ => c := by
  apply List.ext_getElem
  · simp
  · intro i h1 h2
    simp

/-- exactly linear data under every combination of windows: continued exactly on a side with an
effective window of at least two points, repeated on a side with an effective window of one -/
theorem padEdges_linear_clamped (a b : Rat) (n pad wl wr : Nat) (hn : 1 ≤ n) (hwl : 1 ≤ wl) (hwr : 1 ≤ wr) :
    padEdges ((List.range n).map fun (i : Nat) => a + b * (((pad + i : Nat) : Int) : Rat)) pad (min wl n) (min wr n) =
      (List.range (n + 2 * pad)).map fun (k : Nat) => a + b * (((clampIdx pad n wl wr k : Nat) : Int) : Rat) := by
  have hlen : ((List.range n).map fun (i : Nat) => a + b * (((pad + i : Nat) : Int) : Rat)).length = n := by simp
  have hy : ∀ i, i < ((List.range n).map fun (i : Nat) => a + b * (((pad + i : Nat) : Int) : Rat)).length →
      ((List.range n).map fun (i : Nat) => a + b * (((pad + i : Nat) : Int) : Rat)).getD i 0 =
        a + b * (((pad + i : Nat) : Int) : Rat) := by
    intro i hi
    rw [hlen] at hi
    exact range_map_getD n _ i hi
  rw [range_three]
  unfold padEdges
  by_cases h : pad = 0
  · subst h
    simp only [if_true, List.range_zero, List.map_nil, List.nil_append, List.append_nil]
    apply List.map_congr_left
    intro i hi
    have hi' := List.mem_range.mp hi
    have : clampIdx 0 n wl wr (0 + i) = 0 + i := by
      unfold clampIdx
      simp only [Nat.not_lt_zero, if_false]
      rw [if_neg (by omega)]
    rw [this]
  · simp only [h, if_false]
    congr 1
    · congr 1
      · -- left edge
        by_cases h1 : min wl n = 1
        · rw [h1, getEdges_left_one, replicate_eq_map_range, hy 0 (by rw [hlen]; omega)]
          apply List.map_congr_left
          intro k hk
          have hk' := List.mem_range.mp hk
          have : clampIdx pad n wl wr k = pad + 0 := by
            unfold clampIdx
            simp [hk', h1]
          rw [this]
        · rw [getEdges_left_linear a b _ pad _ _ (by rw [hlen]; omega) (by omega) hy]
          apply List.map_congr_left
          intro k hk
          have hk' := List.mem_range.mp hk
          have : clampIdx pad n wl wr k = k := by
            unfold clampIdx
            simp [hk', h1]
          rw [this]
      · -- interior
        apply List.map_congr_left
        intro i hi
        have hi' := List.mem_range.mp hi
        have : clampIdx pad n wl wr (pad + i) = pad + i := by
          unfold clampIdx
          rw [if_neg (by omega), if_neg (by omega)]
        rw [this]
    · -- right edge
      by_cases h2 : min wr n = 1
      · rw [h2, getEdges_right_one, replicate_eq_map_range, hlen, hy (n - 1) (by rw [hlen]; omega)]
        apply List.map_congr_left
        intro k hk
        have : clampIdx pad n wl wr (pad + n + k) = pad + (n - 1) := by
          unfold clampIdx
          rw [if_neg (by omega), if_pos (by omega), if_pos h2]
          omega
        rw [this]
      · rw [getEdges_right_linear a b _ pad _ _ (by rw [hlen]; omega) (by omega) hy, hlen]
        apply List.map_congr_left
        intro k hk
        have : clampIdx pad n wl wr (pad + n + k) = pad + n + k := by
          unfold clampIdx
          rw [if_neg (by omega), if_pos (by omega), if_neg h2]
        rw [this]

/-- arbitrary data with a one-point window on both sides: `np.pad(…, 'edge')` -/
theorem padEdges_one_eq (ys : List Rat) (pad : Nat) (hn : 1 ≤ ys.length) :
    padEdges ys pad 1 1 =
      (List.range (ys.length + 2 * pad)).map fun k => ys.getD (max pad (min k (pad + ys.length - 1)) - pad) 0 := by
  rw [range_three]
  unfold padEdges
  by_cases h : pad = 0
  · subst h
    simp only [if_true, List.range_zero, List.map_nil, List.nil_append, List.append_nil]
    conv_lhs => rw [← map_getD_range ys]
    apply List.map_congr_left
    intro i hi
    have hi' := List.mem_range.mp hi
    congr 1
    omega
  · simp only [h, if_false]
    rw [getEdges_left_one, getEdges_right_one, replicate_eq_map_range, replicate_eq_map_range]
    congr 1
    · congr 1
      · apply List.map_congr_left
        intro k hk
        have hk' := List.mem_range.mp hk
        congr 1
        omega
      · conv_lhs => rw [← map_getD_range ys]
        apply List.map_congr_left
        intro i hi
        have hi' := List.mem_range.mp hi
        congr 1
        omega
    · apply List.map_congr_left
      intro k hk
      congr 1
      omega

theorem padEdges_left_one (ys : List Rat) (pad wr k : Nat) (hk : k < pad) :
    (padEdges ys pad 1 wr).getD k 0 = ys.getD 0 0 := by
  have h : pad ≠ 0 := by omega
  unfold padEdges
  simp only [h, if_false, getEdges_left_one, List.getD_eq_getElem?_getD]
  rw [List.append_assoc, List.getElem?_append_left (by simpa using hk)]
  simp [hk]

theorem padEdges_right_one (ys : List Rat) (pad wl k : Nat) (hk : k < pad) :
    (padEdges ys pad wl 1).getD (pad + ys.length + k) 0 = ys.getD (ys.length - 1) 0 := by
  have h : pad ≠ 0 := by omega
  unfold padEdges
  simp only [h, if_false, getEdges_right_one, List.getD_eq_getElem?_getD]
  rw [List.getElem?_append_right (by simp [getEdges_left_length])]
  simp [getEdges_left_length, hk]

/-! ### entries of the padded table -/
theorem colExt_interior (M pad wt wb : Nat) (g : Nat → Nat → Rat) (i l : Nat) (hi : i < M) :
    colExt M pad wt wb g (pad + i) l = g i l := by
  unfold colExt
  rw [padEdges_interior _ _ _ _ _ (by simpa using hi)]
  exact range_map_getD M _ i hi

theorem rowExt_interior (N pad wl wr : Nat) (g : Nat → Nat → Rat) (k j : Nat) (hj : j < N) :
    rowExt N pad wl wr g k (pad + j) = g k j := by
  unfold rowExt
  rw [padEdges_interior _ _ _ _ _ (by simpa using hj)]
  exact range_map_getD N _ j hj

theorem rowExt_congr (N pad wl wr : Nat) (g g' : Nat → Nat → Rat) (i l : Nat) (h : ∀ j, j < N → g i j = g' i j) :
    rowExt N pad wl wr g i l = rowExt N pad wl wr g' i l := by
  unfold rowExt
  have : ((List.range N).map fun j => g i j) = (List.range N).map fun j => g' i j :=
    List.map_congr_left fun j hj => h j (List.mem_range.mp hj)
  rw [this]

theorem colExt_congr (M pad wt wb : Nat) (g g' : Nat → Nat → Rat) (k j : Nat) (h : ∀ i, i < M → g i j = g' i j) :
    colExt M pad wt wb g k j = colExt M pad wt wb g' k j := by
  unfold colExt
  have : ((List.range M).map fun i => g i j) = (List.range M).map fun i => g' i j :=
    List.map_congr_left fun i hi => h i (List.mem_range.mp hi)
  rw [this]

theorem rowExt_congr2 (N pad wl wr : Nat) (g g' : Nat → Nat → Rat) (i i' l : Nat) (h : ∀ j, j < N → g i j = g' i' j) :
    rowExt N pad wl wr g i l = rowExt N pad wl wr g' i' l := by
  unfold rowExt
  have : ((List.range N).map fun j => g i j) = (List.range N).map fun j => g' i' j :=
    List.map_congr_left fun j hj => h j (List.mem_range.mp hj)
  rw [this]

theorem colExt_congr2 (M pad wt wb : Nat) (g g' : Nat → Nat → Rat) (k j j' : Nat) (h : ∀ i, i < M → g i j = g' i j') :
    colExt M pad wt wb g k j = colExt M pad wt wb g' k j' := by
  unfold colExt
  have : ((List.range M).map fun i => g i j) = (List.range M).map fun i => g' i j' :=
    List.map_congr_left fun i hi => h i (List.mem_range.mp hi)
  rw [this]

theorem rowExt_linear (N pad wl wr : Nat) (hN : 1 ≤ N) (hwl : 1 ≤ wl) (hwr : 1 ≤ wr) (g : Nat → Nat → Rat) (A C : Rat)
    (i l : Nat) (hl : l < N + 2 * pad) (h : ∀ j, j < N → g i j = A + C * (((pad + j : Nat) : Int) : Rat)) :
    rowExt N pad wl wr g i l = A + C * (((clampIdx pad N wl wr l : Nat) : Int) : Rat) := by
  rw [rowExt_congr N pad wl wr g (fun _ j => A + C * (((pad + j : Nat) : Int) : Rat)) i l h]
  unfold rowExt
  rw [padEdges_linear_clamped A C N pad wl wr hN hwl hwr]
  exact range_map_getD _ _ l hl

theorem colExt_linear (M pad wt wb : Nat) (hM : 1 ≤ M) (hwt : 1 ≤ wt) (hwb : 1 ≤ wb) (g : Nat → Nat → Rat) (A B : Rat)
    (k j : Nat) (hk : k < M + 2 * pad) (h : ∀ i, i < M → g i j = A + B * (((pad + i : Nat) : Int) : Rat)) :
    colExt M pad wt wb g k j = A + B * (((clampIdx pad M wt wb k : Nat) : Int) : Rat) := by
  rw [colExt_congr M pad wt wb g (fun i _ => A + B * (((pad + i : Nat) : Int) : Rat)) k j h]
  unfold colExt
  rw [padEdges_linear_clamped A B M pad wt wb hM hwt hwb]
  exact range_map_getD _ _ k hk

theorem rowExt_one (N pad wl wr : Nat) (hN : 1 ≤ N) (h1 : min wl N = 1) (h2 : min wr N = 1) (g : Nat → Nat → Rat)
    (i l : Nat) (hl : l < N + 2 * pad) :
    rowExt N pad wl wr g i l = g i (max pad (min l (pad + N - 1)) - pad) := by
  unfold rowExt
  rw [h1, h2, padEdges_one_eq _ _ (by simpa using hN)]
  simp only [List.length_map, List.length_range]
  rw [range_map_getD _ _ l hl]
  exact range_map_getD N _ _ (by omega)

theorem colExt_one (M pad wt wb : Nat) (hM : 1 ≤ M) (h1 : min wt M = 1) (h2 : min wb M = 1) (g : Nat → Nat → Rat)
    (k j : Nat) (hk : k < M + 2 * pad) :
    colExt M pad wt wb g k j = g (max pad (min k (pad + M - 1)) - pad) j := by
  unfold colExt
  rw [h1, h2, padEdges_one_eq _ _ (by simpa using hM)]
  simp only [List.length_map, List.length_range]
  rw [range_map_getD _ _ k hk]
  exact range_map_getD M (fun i => g i j) _ (by omega)

/-! ### the 2-D theorems, for tables first -/
theorem half_self (x : Rat) : (x + x) / 2 = x := by ring

theorem extrapolate2d_tab_shape (M N pr pc wt wb wl wr : Nat) (f : Nat → Nat → Rat) (hM : 1 ≤ M) (hN : 1 ≤ N) :
    (extrapolate2d (tab M N f) pr pc wt wb wl wr).length = M + 2 * pr ∧
      ∀ row ∈ extrapolate2d (tab M N f) pr pc wt wb wl wr, row.length = N + 2 * pc := by
  rw [extrapolate2d_tab _ _ _ _ _ _ _ _ _ hM hN]
  exact ⟨tab_length _ _ _, tab_row_length _ _ _⟩

theorem extrapolate2d_tab_row (M N pr pc wt wb wl wr : Nat) (f : Nat → Nat → Rat) (hM : 1 ≤ M) (hN : 1 ≤ N)
    (i : Nat) (hi : i < M) :
    (extrapolate2d (tab M N f) pr pc wt wb wl wr).getD (pr + i) [] =
      padEdges ((List.range N).map fun j => f i j) pc (min wl N) (min wr N) := by
  rw [extrapolate2d_tab _ _ _ _ _ _ _ _ _ hM hN, tab_getD _ _ _ _ (by omega)]
  have hl := padEdges_length ((List.range N).map fun j => f i j) pc (min wl N) (min wr N)
  simp only [List.length_map, List.length_range] at hl
  conv_rhs => rw [← map_getD_range (padEdges ((List.range N).map fun j => f i j) pc (min wl N) (min wr N)), hl]
  apply List.map_congr_left
  intro l _
  rw [colExt_interior _ _ _ _ _ _ _ hi,
    rowExt_congr2 N pc wl wr (colExt M pr wt wb f) f (pr + i) i l (fun j _ => colExt_interior _ _ _ _ _ _ _ hi),
    half_self]
  rfl

theorem extrapolate2d_tab_col (M N pr pc wt wb wl wr : Nat) (f : Nat → Nat → Rat) (hM : 1 ≤ M) (hN : 1 ≤ N)
    (j : Nat) (hj : j < N) :
    colOf (extrapolate2d (tab M N f) pr pc wt wb wl wr) (pc + j) =
      padEdges ((List.range M).map fun i => f i j) pr (min wt M) (min wb M) := by
  rw [extrapolate2d_tab _ _ _ _ _ _ _ _ _ hM hN, colOf_tab _ _ _ _ (by omega)]
  have hl := padEdges_length ((List.range M).map fun i => f i j) pr (min wt M) (min wb M)
  simp only [List.length_map, List.length_range] at hl
  conv_rhs => rw [← map_getD_range (padEdges ((List.range M).map fun i => f i j) pr (min wt M) (min wb M)), hl]
  apply List.map_congr_left
  intro k _
  rw [rowExt_interior _ _ _ _ _ _ _ hj,
    colExt_congr2 M pr wt wb (rowExt N pc wl wr f) f k (pc + j) j (fun i _ => rowExt_interior _ _ _ _ _ _ _ hj),
    half_self]
  rfl

theorem extrapolate2d_tab_interior (M N pr pc wt wb wl wr : Nat) (f : Nat → Nat → Rat) (hM : 1 ≤ M) (hN : 1 ≤ N)
    (i j : Nat) (hi : i < M) (hj : j < N) :
    ent (extrapolate2d (tab M N f) pr pc wt wb wl wr) (pr + i) (pc + j) = f i j := by
  unfold ent
  rw [extrapolate2d_tab_row _ _ _ _ _ _ _ _ _ hM hN i hi, padEdges_interior _ _ _ _ _ (by simpa using hj)]
  exact range_map_getD N _ j hj

/-- planar data, every combination of windows ≥ 1, every size ≥ 1: strips and corners -/
theorem extrapolate2d_planar_clamped (a b c : Rat) (M N pr pc wt wb wl wr : Nat) (hM : 1 ≤ M) (hN : 1 ≤ N)
    (hwt : 1 ≤ wt) (hwb : 1 ≤ wb) (hwl : 1 ≤ wl) (hwr : 1 ≤ wr) :
    extrapolate2d (tab M N fun i j => a + b * (((pr + i : Nat) : Int) : Rat) + c * (((pc + j : Nat) : Int) : Rat))
        pr pc wt wb wl wr =
      tab (M + 2 * pr) (N + 2 * pc) fun k l =>
        a + b * (((clampIdx pr M wt wb k : Nat) : Int) : Rat) + c * (((clampIdx pc N wl wr l : Nat) : Int) : Rat) := by
  rw [extrapolate2d_tab _ _ _ _ _ _ _ _ _ hM hN]
  apply tab_congr
  intro k l hk hl
  -- rows first, then columns
  have h1 : colExt M pr wt wb (rowExt N pc wl wr fun i j =>
      a + b * (((pr + i : Nat) : Int) : Rat) + c * (((pc + j : Nat) : Int) : Rat)) k l =
      (a + c * (((clampIdx pc N wl wr l : Nat) : Int) : Rat)) + b * (((clampIdx pr M wt wb k : Nat) : Int) : Rat) := by
    apply colExt_linear M pr wt wb hM hwt hwb _ _ _ k l hk
    intro i _
    rw [rowExt_linear N pc wl wr hN hwl hwr _ (a + b * (((pr + i : Nat) : Int) : Rat)) c i l hl (fun j _ => rfl)]
    ring
  -- columns first, then rows
  have h2 : rowExt N pc wl wr (colExt M pr wt wb fun i j =>
      a + b * (((pr + i : Nat) : Int) : Rat) + c * (((pc + j : Nat) : Int) : Rat)) k l =
      (a + b * (((clampIdx pr M wt wb k : Nat) : Int) : Rat)) + c * (((clampIdx pc N wl wr l : Nat) : Int) : Rat) := by
    apply rowExt_linear N pc wl wr hN hwl hwr _ _ _ k l hl
    intro j _
    rw [colExt_linear M pr wt wb hM hwt hwb _ (a + c * (((pc + j : Nat) : Int) : Rat)) b k j hk (fun i _ => by ring)]
    ring
  rw [h1, h2]
  ring

/-- arbitrary data, all four effective windows one point: the whole result is `np.pad(…, 'edge')` -/
theorem extrapolate2d_tab_one (M N pr pc wt wb wl wr : Nat) (f : Nat → Nat → Rat) (hM : 1 ≤ M) (hN : 1 ≤ N)
    (ht : min wt M = 1) (hb : min wb M = 1) (hl : min wl N = 1) (hr : min wr N = 1) :
    extrapolate2d (tab M N f) pr pc wt wb wl wr =
      tab (M + 2 * pr) (N + 2 * pc) fun k l =>
        f (max pr (min k (pr + M - 1)) - pr) (max pc (min l (pc + N - 1)) - pc) := by
  rw [extrapolate2d_tab _ _ _ _ _ _ _ _ _ hM hN]
  apply tab_congr
  intro k l hk hl'
  rw [colExt_one M pr wt wb hM ht hb _ k l hk, rowExt_one N pc wl wr hN hl hr _ _ l hl',
    rowExt_one N pc wl wr hN hl hr _ k l hl', colExt_one M pr wt wb hM ht hb _ k _ hk, half_self]

/-! ### … and for every rectangular matrix -/
theorem colOf_getD (m : List (List Rat)) (j k : Nat) : (colOf m j).getD k 0 = ent m k j := by
  unfold colOf ent
  simp only [List.getD_eq_getElem?_getD, List.getElem?_map]
  cases m[k]? <;> simp

theorem extrapolate2d_shape (y : List (List Rat)) (M N pr pc wt wb wl wr : Nat) (hM : y.length = M)
    (hrect : ∀ row ∈ y, row.length = N) (hM1 : 1 ≤ M) (hN1 : 1 ≤ N) :
    (extrapolate2d y pr pc wt wb wl wr).length = M + 2 * pr ∧
      ∀ row ∈ extrapolate2d y pr pc wt wb wl wr, row.length = N + 2 * pc := by
  have h := eq_tab y M N hM hrect
  generalize ent y = f at h
  subst h
  exact extrapolate2d_tab_shape M N pr pc wt wb wl wr f hM1 hN1

theorem extrapolate2d_interior (y : List (List Rat)) (M N pr pc wt wb wl wr : Nat) (hM : y.length = M)
    (hrect : ∀ row ∈ y, row.length = N) (hM1 : 1 ≤ M) (hN1 : 1 ≤ N) (i j : Nat) (hi : i < M) (hj : j < N) :
    ent (extrapolate2d y pr pc wt wb wl wr) (pr + i) (pc + j) = ent y i j := by
  have h := eq_tab y M N hM hrect
  generalize hf : ent y = f at h
  subst h
  rw [extrapolate2d_tab_interior M N pr pc wt wb wl wr f hM1 hN1 i j hi hj]

theorem extrapolate2d_row (y : List (List Rat)) (M N pr pc wt wb wl wr : Nat) (hM : y.length = M)
    (hrect : ∀ row ∈ y, row.length = N) (hM1 : 1 ≤ M) (hN1 : 1 ≤ N) (i : Nat) (hi : i < M) :
    (extrapolate2d y pr pc wt wb wl wr).getD (pr + i) [] = padEdges (y.getD i []) pc (min wl N) (min wr N) := by
  have h := eq_tab y M N hM hrect
  generalize ent y = f at h
  subst h
  rw [extrapolate2d_tab_row M N pr pc wt wb wl wr f hM1 hN1 i hi, tab_getD M N f i hi]

theorem extrapolate2d_col (y : List (List Rat)) (M N pr pc wt wb wl wr : Nat) (hM : y.length = M)
    (hrect : ∀ row ∈ y, row.length = N) (hM1 : 1 ≤ M) (hN1 : 1 ≤ N) (j : Nat) (hj : j < N) :
    colOf (extrapolate2d y pr pc wt wb wl wr) (pc + j) = padEdges (colOf y j) pr (min wt M) (min wb M) := by
  have h := eq_tab y M N hM hrect
  generalize ent y = f at h
  subst h
  rw [extrapolate2d_tab_col M N pr pc wt wb wl wr f hM1 hN1 j hj, colOf_tab M N f j hj]

theorem extrapolate2d_one (y : List (List Rat)) (M N pr pc wt wb wl wr : Nat) (hM : y.length = M)
    (hrect : ∀ row ∈ y, row.length = N) (hM1 : 1 ≤ M) (hN1 : 1 ≤ N)
    (ht : min wt M = 1) (hb : min wb M = 1) (hl : min wl N = 1) (hr : min wr N = 1) :
    extrapolate2d y pr pc wt wb wl wr =
      tab (M + 2 * pr) (N + 2 * pc) fun k l =>
        ent y (max pr (min k (pr + M - 1)) - pr) (max pc (min l (pc + N - 1)) - pc) := by
  have h := eq_tab y M N hM hrect
  generalize hf : ent y = f at h
  subst h
  rw [extrapolate2d_tab_one M N pr pc wt wb wl wr f hM1 hN1 ht hb hl hr]

/-- a side whose effective window is one point repeats the nearest edge row / column, whatever the
other three windows are -/
theorem extrapolate2d_one_sides (y : List (List Rat)) (M N pr pc wt wb wl wr : Nat) (hM : y.length = M)
    (hrect : ∀ row ∈ y, row.length = N) (hM1 : 1 ≤ M) (hN1 : 1 ≤ N) :
    (min wt M = 1 → ∀ k j, k < pr → j < N → ent (extrapolate2d y pr pc wt wb wl wr) k (pc + j) = ent y 0 j) ∧
    (min wb M = 1 → ∀ k j, k < pr → j < N →
      ent (extrapolate2d y pr pc wt wb wl wr) (pr + M + k) (pc + j) = ent y (M - 1) j) ∧
    (min wl N = 1 → ∀ i l, i < M → l < pc → ent (extrapolate2d y pr pc wt wb wl wr) (pr + i) l = ent y i 0) ∧
    (min wr N = 1 → ∀ i l, i < M → l < pc →
      ent (extrapolate2d y pr pc wt wb wl wr) (pr + i) (pc + N + l) = ent y i (N - 1)) := by
  have hcl : ∀ j, (colOf y j).length = M := by intro j; simp [colOf, hM]
  refine ⟨?_, ?_, ?_, ?_⟩
  · intro h k j hk hj
    rw [← colOf_getD, extrapolate2d_col y M N pr pc wt wb wl wr hM hrect hM1 hN1 j hj, h,
      padEdges_left_one _ _ _ _ hk, colOf_getD]
  · intro h k j hk hj
    have := padEdges_right_one (colOf y j) pr (min wt M) k hk
    rw [hcl] at this
    rw [← colOf_getD, extrapolate2d_col y M N pr pc wt wb wl wr hM hrect hM1 hN1 j hj, h, this, colOf_getD]
  · intro h i l hi hl
    unfold ent
    rw [extrapolate2d_row y M N pr pc wt wb wl wr hM hrect hM1 hN1 i hi, h, padEdges_left_one _ _ _ _ hl]
  · intro h i l hi hl
    have hrow : (y.getD i []).length = N := by
      have hi' : i < y.length := by omega
      have : y.getD i [] = y[i] := by simp [List.getD_eq_getElem?_getD, hi']
      rw [this]
      exact hrect _ (List.getElem_mem hi')
    have := padEdges_right_one (y.getD i []) pc (min wl N) l hl
    rw [hrow] at this
    unfold ent
    rw [extrapolate2d_row y M N pr pc wt wb wl wr hM hrect hM1 hN1 i hi, h, this]

/-- the statement in data coordinates: `y[i][j] = a + b·i + c·j`, all sizes and windows ≥ 2 -/
theorem extrapolate2d_planar_exact (a b c : Rat) (M N pr pc wt wb wl wr : Nat) (hM : 2 ≤ M) (hN : 2 ≤ N)
    (hwt : 2 ≤ wt) (hwb : 2 ≤ wb) (hwl : 2 ≤ wl) (hwr : 2 ≤ wr) :
    extrapolate2d (tab M N fun i j => a + b * (i : Rat) + c * (j : Rat)) pr pc wt wb wl wr =
      tab (M + 2 * pr) (N + 2 * pc) fun k l => a + b * ((k : Rat) - (pr : Rat)) + c * ((l : Rat) - (pc : Rat)) := by
  have h := extrapolate2d_planar_clamped (a - b * (pr : Rat) - c * (pc : Rat)) b c M N pr pc wt wb wl wr
    (by omega) (by omega) (by omega) (by omega) (by omega) (by omega)
  have hin : (tab M N fun i j => a + b * (i : Rat) + c * (j : Rat)) =
      tab M N fun i j => (a - b * (pr : Rat) - c * (pc : Rat)) + b * (((pr + i : Nat) : Int) : Rat) +
        c * (((pc + j : Nat) : Int) : Rat) := by
    apply tab_congr
    intro i j _ _
    push_cast
    ring
  rw [hin, h]
  apply tab_congr
  intro k l _ _
  rw [clampIdx_id pr M wt wb k hM hwt hwb, clampIdx_id pc N wl wr l hN hwl hwr]
  push_cast
  ring

/-! ### `pad_edges2d`'s arguments -/
theorem padEdges2dExtrap_ok (y : List (List Rat)) (pad : List Int) (win : Option (List Int))
    (pt pb pl pr wt wb wl wr : Nat) (hp : rowColValues pad = some ((pt : Int), (pb : Int), (pl : Int), (pr : Int)))
    (hw : windows2d ((pt : Int), (pb : Int), (pl : Int), (pr : Int)) win =
      some ((wt : Int), (wb : Int), (wl : Int), (wr : Int)))
    (h1 : 1 ≤ pt) (h2 : 1 ≤ pb) (h3 : 1 ≤ pl) (h4 : 1 ≤ pr) (h5 : 1 ≤ wt) (h6 : 1 ≤ wb) (h7 : 1 ≤ wl) (h8 : 1 ≤ wr) :
    padEdges2dExtrap y pad win = .ok (extrapolate2d y pt pl wt wb wl wr) := by
  have c1 : ¬ ((pt : Int) = 0 ∨ (pb : Int) = 0 ∨ (pl : Int) = 0 ∨ (pr : Int) = 0) := by omega
  have c2 : ¬ ((pt : Int) < 0 ∨ (pb : Int) < 0 ∨ (pl : Int) < 0 ∨ (pr : Int) < 0) := by omega
  have c3 : ¬ ((wt : Int) ≤ 0 ∨ (wb : Int) ≤ 0 ∨ (wl : Int) ≤ 0 ∨ (wr : Int) ≤ 0) := by omega
  unfold padEdges2dExtrap
  simp only [hp, c1, c2, if_false, hw, c3, Int.toNat_natCast]

theorem padEdges2dExtrap_zero (y : List (List Rat)) (pad : List Int) (win : Option (List Int))
    (pt pb pl pr : Int) (hp : rowColValues pad = some (pt, pb, pl, pr)) (h0 : pt = 0 ∨ pb = 0 ∨ pl = 0 ∨ pr = 0) :
    padEdges2dExtrap y pad win = .notImplemented := by
  unfold padEdges2dExtrap
  simp only [hp, h0, if_true]

end PbVerif.Lemmas
