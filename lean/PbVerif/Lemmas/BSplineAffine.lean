import PbVerif.Lemmas.BSpline
/-! C12 / C07: the B-spline kernels are invariant under an increasing affine map `t ↦ a·t + b` of the
abscissae AND the knots (every expression of `_find_interval` / `_de_boor` is a comparison of, or a ratio of
differences of, such values), and `_spline_knots` commutes with the map.  Hence the basis, `B'WB`, `B'Wy` do
not depend on the magnitude (offset, scale) of the x-axis.  Proofs. -/
set_option linter.unusedVariables false
namespace PbVerif.Lemmas.Affine
open PbVerif.BSpline PbVerif.Lemmas

/-- the map of the x-axis -/
def aff (a b : Rat) : Rat → Rat := fun t => a * t + b

theorem getD_map_aff (a b : Rat) (k : List Rat) (i : Nat) (h : i < k.length) :
    (k.map (aff a b)).getD i 0 = aff a b (k.getD i 0) := by
  simp [List.getD_eq_getElem?_getD, h]

theorem aff_lt (a b : Rat) (ha : 0 < a) (s t : Rat) : aff a b s < aff a b t ↔ s < t := by
  simp only [aff]
  constructor
  · intro h
    by_contra hc
    have : t ≤ s := not_lt.mp hc
    have := mul_le_mul_of_nonneg_left this ha.le
    linarith
  · intro h
    have := mul_lt_mul_of_pos_left h ha
    linarith

theorem aff_le (a b : Rat) (ha : 0 < a) (s t : Rat) : aff a b s ≤ aff a b t ↔ s ≤ t := by
  rw [← not_lt, ← not_lt, aff_lt a b ha]

theorem aff_inj (a b : Rat) (ha : a ≠ 0) (s t : Rat) : aff a b s = aff a b t ↔ s = t := by
  simp only [aff]
  constructor
  · intro h
    have : a * s = a * t := by linarith
    exact mul_left_cancel₀ ha this
  · intro h; rw [h]

/-! ### `_de_boor` -/

/-- one product `factor * (x - left_knot)` (or `factor * (right_knot - x)`): the `left_knot == right_knot`
test has the same outcome (needs only `a ≠ 0`), and `a` cancels between the difference quotient's
denominator and the distance to the knot -/
theorem term_aff (a b : Rat) (ha : a ≠ 0) (lk rk o p q : Rat) :
    (if aff a b lk = aff a b rk then 0 else o / (aff a b rk - aff a b lk)) * (aff a b p - aff a b q) =
    (if lk = rk then 0 else o / (rk - lk)) * (p - q) := by
  by_cases h : lk = rk
  · simp [h]
  · have h' : ¬ aff a b lk = aff a b rk := by rw [aff_inj a b ha]; exact h
    have hne : rk - lk ≠ 0 := sub_ne_zero.mpr (Ne.symm h)
    rw [if_neg h, if_neg h']
    have hne' : a * rk + b - (a * lk + b) ≠ 0 := by
      have : a * rk + b - (a * lk + b) = a * (rk - lk) := by ring
      rw [this]; exact mul_ne_zero ha hne
    simp only [aff]
    field_simp
    ring

theorem deBoorStep_aff (a b : Rat) (ha : a ≠ 0) (knots : List Rat) (x : Rat) (left i : Nat) (old : List Rat)
    (hk : left + i < knots.length) :
    deBoorStep (knots.map (aff a b)) (aff a b x) left i old = deBoorStep knots x left i old := by
  simp only [deBoorStep]
  apply List.map_congr_left
  intro j hj
  have hj' : j ≤ i := by have := List.mem_range.mp hj; omega
  rw [getD_map_aff a b knots (left + j) (by omega), getD_map_aff a b knots (left + j - i) (by omega)]
  congr 1
  · by_cases h1 : 1 ≤ j
    · simp only [h1, if_true]
      exact term_aff a b ha _ _ _ _ _
    · simp only [h1, if_false]
  · by_cases h2 : j + 1 ≤ i
    · simp only [h2, if_true]
      rw [getD_map_aff a b knots (left + (j + 1)) (by omega),
        getD_map_aff a b knots (left + (j + 1) - i) (by omega),
        getD_map_aff a b knots (left + j + 1) (by omega)]
      exact term_aff a b ha _ _ _ _ _
    · simp only [h2, if_false]

theorem deBoorUpTo_aff (a b : Rat) (ha : a ≠ 0) (knots : List Rat) (x : Rat) (left i : Nat)
    (hk : left + i < knots.length) :
    deBoorUpTo (knots.map (aff a b)) (aff a b x) left i = deBoorUpTo knots x left i := by
  induction i with
  | zero => rfl
  | succ i ih =>
    simp only [deBoorUpTo]
    rw [ih (by omega), deBoorStep_aff a b ha knots x left (i + 1) _ hk]

/-! ### `_find_interval` -/

theorem down_congr (lt lt' : Nat → Bool) (deg f left : Nat) (h : ∀ i, i ≤ left → lt i = lt' i) :
    down lt deg f left = down lt' deg f left := by
  induction f generalizing left with
  | zero => rfl
  | succ f ih =>
    simp only [down]
    rw [h left (Nat.le_refl _), ih (left - 1) (fun i hi => h i (by omega))]

theorem up_congr (ge ge' : Nat → Bool) (nb f left : Nat) (hl : left ≤ nb) (h : ∀ i, i ≤ nb → ge i = ge' i) :
    up ge nb f left = up ge' nb f left := by
  induction f generalizing left with
  | zero => rfl
  | succ f ih =>
    simp only [up]
    rw [h left hl]
    by_cases hc : left = nb
    · simp [hc]
    · rw [ih (left + 1) (by omega)]

theorem findIntervalT_congr (lt lt' ge ge' : Nat → Bool) (deg lastLeft nb : Nat) (hd : deg < nb)
    (h1 : ∀ i, i ≤ nb → lt i = lt' i) (h2 : ∀ i, i ≤ nb → ge i = ge' i) :
    findIntervalT lt ge deg lastLeft nb = findIntervalT lt' ge' deg lastLeft nb := by
  simp only [findIntervalT]
  generalize hl0 : (if deg < lastLeft ∧ lastLeft < nb then lastLeft else deg) = l0
  have hl0a : deg ≤ l0 ∧ l0 < nb := by subst hl0; split <;> omega
  rw [down_congr lt lt' deg (l0 - deg + 1) l0 (fun i hi => h1 i (by omega))]
  have hdb := down_bounds lt' deg (l0 - deg + 1) l0 hl0a.1
  rw [up_congr ge ge' nb _ _ (by omega) h2]

theorem findInterval_aff (a b : Rat) (ha : 0 < a) (knots : List Rat) (deg : Nat) (x : Rat) (lastLeft nb : Nat)
    (hd : deg < nb) (hlen : nb < knots.length) :
    findInterval (knots.map (aff a b)) deg (aff a b x) lastLeft nb = findInterval knots deg x lastLeft nb := by
  simp only [findInterval]
  rw [findIntervalT_congr _ (fun i => decide (x < knots.getD i 0)) _ (fun i => decide (x ≥ knots.getD i 0))
    deg lastLeft nb hd]
  · intro i hi
    rw [getD_map_aff a b knots i (by omega)]
    simp only [aff_lt a b ha]
  · intro i hi
    rw [getD_map_aff a b knots i (by omega)]
    simp only [ge_iff_le, aff_le a b ha]

/-! ### `__make_design_matrix` -/

theorem designRows_aff (a b : Rat) (ha : 0 < a) (knots : List Rat) (deg : Nat) (xs : List Rat)
    (h : deg < knots.length - (deg + 1)) :
    designRows (knots.map (aff a b)) deg (xs.map (aff a b)) = designRows knots deg xs := by
  simp only [designRows, List.length_map, List.foldl_map]
  congr 1
  generalize ((deg, []) : Nat × List Row) = acc
  induction xs generalizing acc with
  | nil => rfl
  | cons x xs ih =>
    simp only [List.foldl_cons]
    have hf := findInterval_aff a b ha knots deg x acc.1 (knots.length - (deg + 1)) h (by omega)
    have hb := findIntervalT_inb (fun i => decide (x < knots.getD i 0)) (fun i => decide (x ≥ knots.getD i 0))
      deg acc.1 (knots.length - (deg + 1)) h
    rw [hf, show deBoor (knots.map (aff a b)) (aff a b x) deg (findInterval knots deg x acc.1 (knots.length - (deg + 1)))
        = deBoor knots x deg (findInterval knots deg x acc.1 (knots.length - (deg + 1))) from
      deBoorUpTo_aff a b (ne_of_gt ha) knots x _ deg (by simp only [findInterval]; omega)]
    exact ih _

/-! ### `_spline_knots` -/

theorem splineKnots_aff (a b xmin xmax : Rat) (nk deg : Nat) :
    splineKnots (aff a b xmin) (aff a b xmax) nk deg = (splineKnots xmin xmax nk deg).map (aff a b) := by
  simp only [splineKnots, List.map_map]
  apply List.map_congr_left
  intro i _
  simp only [Function.comp, aff]
  ring

theorem foldMin_aff (a b : Rat) (ha : 0 < a) (xs : List Rat) (m : Rat) :
    (xs.map (aff a b)).foldl (fun m v => if v < m then v else m) (aff a b m) =
      aff a b (xs.foldl (fun m v => if v < m then v else m) m) := by
  induction xs generalizing m with
  | nil => rfl
  | cons x xs ih =>
    simp only [List.map_cons, List.foldl_cons, aff_lt a b ha]
    by_cases h : x < m
    · simp only [h, if_true]; exact ih x
    · simp only [h, if_false]; exact ih m

theorem foldMax_aff (a b : Rat) (ha : 0 < a) (xs : List Rat) (m : Rat) :
    (xs.map (aff a b)).foldl (fun m v => if m < v then v else m) (aff a b m) =
      aff a b (xs.foldl (fun m v => if m < v then v else m) m) := by
  induction xs generalizing m with
  | nil => rfl
  | cons x xs ih =>
    simp only [List.map_cons, List.foldl_cons, aff_lt a b ha]
    by_cases h : m < x
    · simp only [h, if_true]; exact ih x
    · simp only [h, if_false]; exact ih m

theorem xMin_aff (a b : Rat) (ha : 0 < a) (xs : List Rat) (hx : xs ≠ []) :
    xMin (xs.map (aff a b)) = aff a b (xMin xs) := by
  cases xs with
  | nil => exact absurd rfl hx
  | cons x xs => exact foldMin_aff a b ha xs x
theorem xMax_aff (a b : Rat) (ha : 0 < a) (xs : List Rat) (hx : xs ≠ []) :
    xMax (xs.map (aff a b)) = aff a b (xMax xs) := by
  cases xs with
  | nil => exact absurd rfl hx
  | cons x xs => exact foldMax_aff a b ha xs x

theorem xKnots_aff (a b : Rat) (ha : 0 < a) (xs : List Rat) (hx : xs ≠ []) (nk deg : Nat) :
    xKnots (xs.map (aff a b)) nk deg = (xKnots xs nk deg).map (aff a b) := by
  simp only [xKnots, xMin_aff a b ha xs hx, xMax_aff a b ha xs hx, splineKnots_aff]

theorem pSplineBasis_aff (a b : Rat) (ha : 0 < a) (xs : List Rat) (hx : xs ≠ []) (nk deg : Nat) (hnk : 2 ≤ nk) :
    pSplineBasis (xs.map (aff a b)) nk deg = pSplineBasis xs nk deg := by
  simp only [pSplineBasis, xKnots_aff a b ha xs hx]
  exact designRows_aff a b ha _ deg xs (by simp only [xKnots]; rw [splineKnots_length]; omega)

end PbVerif.Lemmas.Affine
