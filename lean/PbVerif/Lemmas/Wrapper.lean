import PbVerif.Model.Wrapper
import PbVerif.Model.Loop
import PbVerif.Lemmas.Cache
import Mathlib.Tactic.Linarith
import Mathlib.Algebra.Order.Field.Rat
import Mathlib.Data.Rat.Cast.Order
/-! Lemmas for C01 / C16 / C09 (wrapper shapes and dtypes, loop skeleton). -/
namespace PbVerif.Lemmas
open PbVerif.Wrapper PbVerif.Loop PbVerif.Validate

theorem canon1d_variants (n : Nat) (hn : 2 ≤ n) :
    canon1d [n] = some [n] ∧ canon1d [n, 1] = some [n] ∧ canon1d [1, n] = some [n] := by
  have _ := hn
  refine ⟨?_, ?_, ?_⟩ <;> simp [canon1d, checkArrayShape]

theorem canon1d_len (s t : List Nat) (h : canon1d s = some t) : t.length = 1 := by
  unfold canon1d checkArrayShape at h
  by_cases h0 : s.length < 1
  · simp [h0] at h
  · by_cases h1 : s.length = 2 ∧ 1 ∈ s
    · simp [h1] at h; subst h; rfl
    · by_cases h2 : s.length = 1
      · simp [h2] at h; subst h; simpa using h2
      · simp [h0, h1, h2] at h

theorem canon1d_idem (s t : List Nat) (h : canon1d s = some t) : canon1d t = some t := by
  have ht := canon1d_len s t h
  unfold canon1d checkArrayShape
  simp [ht]

theorem canon2d_variants (m n : Nat) (hm : 2 ≤ m) (hn : 2 ≤ n) :
    canon2d [m, n] = some [m, n] ∧ canon2d [m, n, 1] = some [m, n] ∧ canon2d [1, m, n] = some [m, n] ∧
    canon2d [m, 1, n] = some [m, n] := by
  have h1 : m ≠ 1 := by omega
  have h2 : n ≠ 1 := by omega
  refine ⟨?_, ?_, ?_, ?_⟩ <;> simp [canon2d, checkArrayShape, h1, h2, Ne.symm h1, Ne.symm h2]

theorem canon2d_out (s t : List Nat) (h : canon2d s = some t) : t.length ≤ 2 ∧ 1 ∉ t := by
  unfold canon2d checkArrayShape at h
  by_cases h0 : s.length < 1
  · simp [h0] at h
  · by_cases h1 : s.length < 2 ∨ (s.length = 2 ∧ 1 ∈ s)
    · simp [h0, h1] at h
    · by_cases h3 : s.length = 3 ∧ 1 ∈ s
      · simp [h3] at h
        subst h
        refine ⟨?_, by simp⟩
        obtain ⟨hl, hm⟩ := h3
        have := List.length_filter_lt_length_iff_exists (p := fun x => x != 1) (l := s) |>.2 ⟨1, hm, by simp⟩
        omega
      · by_cases h2 : s.length = 2
        · have hm : 1 ∉ s := fun hm => h1 (Or.inr ⟨h2, hm⟩)
          simp [h2, hm] at h
          subst h
          exact ⟨by omega, hm⟩
        · simp [h0, h3, h2] at h

theorem canon2d_idem_of_len (s t : List Nat) (h : canon2d s = some t) (hlen : 2 ≤ t.length) : canon2d t = some t := by
  obtain ⟨h1, h2⟩ := canon2d_out s t h
  have : t.length = 2 := by omega
  unfold canon2d checkArrayShape
  simp [this, h2]

/-- with the extra hypothesis `2 ≤ t.length` (needed: `canon2d [5,1,1] = some [5]` but `canon2d [5] = none`,
i.e. the code squeezes a (5,1,1) stack to a 1-D array; such input then fails later with an ordinary exception) -/
theorem canon2d_idem (s t : List Nat) (h : canon2d s = some t) (hlen : 2 ≤ t.length) : canon2d t = some t :=
  canon2d_idem_of_len s t h hlen

/-- canonicalisation never reorders or changes the values -/
theorem canonArr_data (twoD : Bool) (a b : Arr) (h : canonArr twoD a = some b) : b.data = a.data := by
  unfold canonArr at h
  simp only [Option.map_eq_some_iff] at h
  obtain ⟨sh, _, rfl⟩ := h
  rfl
theorem dtype_rule (d i : DType) : outDtype (some d) i = d ∧ outDtype none i = i := by
  simp [outDtype]

theorem linspaceX_length (n : Nat) : (linspaceX n).length = n := by simp [linspaceX]

theorem linspaceX_getD (n i : Nat) (hi : i < n) :
    (linspaceX n).getD i 0 = if n = 1 then -1 else -1 + 2 * (i : Rat) / ((n - 1 : Nat) : Rat) := by
  simp [linspaceX, List.getD_eq_getElem?_getD, hi]

theorem linspaceX_strict (n i j : Nat) (hij : i < j) (hj : j < n) : (linspaceX n).getD i 0 < (linspaceX n).getD j 0 := by
  rw [linspaceX_getD n i (by omega), linspaceX_getD n j hj]
  have hn : n ≠ 1 := by omega
  simp only [hn, if_false]
  have hpos : (0 : Rat) < ((n - 1 : Nat) : Rat) := by
    have : 0 < n - 1 := by omega
    exact_mod_cast this
  have hc : (i : Rat) < (j : Rat) := by exact_mod_cast hij
  have : 2 * (i : Rat) / ((n - 1 : Nat) : Rat) < 2 * (j : Rat) / ((n - 1 : Nat) : Rat) :=
    div_lt_div_of_pos_right (by linarith) hpos
  linarith

theorem linspaceX_ends (n : Nat) (hn : 2 ≤ n) : (linspaceX n).getD 0 0 = -1 ∧ (linspaceX n).getD (n - 1) 0 = 1 := by
  rw [linspaceX_getD n 0 (by omega), linspaceX_getD n (n-1) (by omega)]
  have hn1 : n ≠ 1 := by omega
  have hpos : ((n - 1 : Nat) : Rat) ≠ 0 := by
    have : n - 1 ≠ 0 := by omega
    exact_mod_cast this
  simp only [hn1, if_false]
  constructor
  · simp
  · rw [mul_div_assoc, div_self hpos]; norm_num

theorem eraseDups_of_nodup {α} [BEq α] [LawfulBEq α] (l : List α) (h : l.Nodup) : l.eraseDups = l := by
  induction l with
  | nil => rfl
  | cons a as ih =>
    rw [List.nodup_cons] at h
    have hf : as.filter (fun b => !b == a) = as := by
      rw [List.filter_eq_self]
      intro b hb
      have : b ≠ a := fun e => h.1 (e ▸ hb)
      simpa using this
    rw [List.eraseDups_cons, hf, ih h.2]

theorem zip_keys_nodup {α β} (P : List α) (V : List β) (h : P.Nodup) : ((P.zip V).map (·.1)).Nodup := by
  induction P generalizing V with
  | nil => simp
  | cons p P ih =>
    cases V with
    | nil => simp
    | cons v V =>
      rw [List.nodup_cons] at h
      simp only [List.zip_cons_cons, List.map_cons, List.nodup_cons]
      refine ⟨?_, ih V h.2⟩
      intro hm
      obtain ⟨⟨a, b⟩, hab, rfl⟩ := List.mem_map.1 hm
      exact h.1 (List.of_mem_zip hab).1

theorem filterMap_congr' {α β} {f g : α → Option β} {l : List α} (h : ∀ x ∈ l, f x = g x) :
    l.filterMap f = l.filterMap g := by
  induction l with
  | nil => rfl
  | cons a l ih =>
    simp only [List.filterMap_cons, h a (List.mem_cons_self ..)]
    rw [ih (fun x hx => h x (List.mem_cons_of_mem _ hx))]

theorem filterMap_find_zip (P : List String) (V : List Rat) (h : P.Nodup) :
    P.filterMap (fun p => ((P.zip V).find? (·.1 == p)).map fun kv => (p, kv.2)) = P.zip V := by
  induction P generalizing V with
  | nil => simp
  | cons p P ih =>
    cases V with
    | nil => simp
    | cons v V =>
      rw [List.nodup_cons] at h
      simp only [List.zip_cons_cons, List.filterMap_cons, List.find?_cons, beq_self_eq_true, Option.map_some]
      congr 1
      refine Eq.trans (filterMap_congr' ?_) (ih V h.2)
      intro q hq
      have : (p == q) = false := by
        have : p ≠ q := fun e => h.1 (e ▸ hq)
        simpa using this
      simp [this]

theorem zip_take_left {α β} (P : List α) (V : List β) : (P.take V.length).zip V = P.zip V := by
  induction P generalizing V with
  | nil => simp
  | cons p P ih =>
    cases V with
    | nil => simp
    | cons v V => simp [ih V]

theorem bindArgs_all_pos (params : List String) (vals : List Rat) (hl : vals.length ≤ params.length) :
    bindArgs params vals [] = some (params.zip vals) := by
  unfold bindArgs
  have : ¬ vals.length > params.length := by omega
  simp only [this, if_false]
  simp [zip_take_left]

theorem bindArgs_split (params : List String) (vals : List Rat) (k : Nat) (hp : params.Nodup) (hl : vals.length ≤ params.length) (hk : k ≤ vals.length) :
    bindArgs params (vals.take k) ((params.zip vals).drop k) = some (params.zip vals) := by
  have hlen : (vals.take k).length = k := by simp; omega
  have hz : (params.zip vals).drop k = (params.drop k).zip (vals.drop k) := by
    simp [List.zip, List.drop_zipWith]
  have hpd : (params.drop k).Nodup := hp.sublist (List.drop_sublist _ _)
  unfold bindArgs
  rw [hlen, hz]
  have h1 : ¬ k > params.length := by omega
  have h2 : ((params.drop k).zip (vals.drop k)).any (fun kv => !(params.drop k).contains kv.1) = false := by
    rw [List.any_eq_false]
    intro ⟨a, b⟩ hab
    have := (List.of_mem_zip hab).1
    simp [this]
  have h3 : ((((params.drop k).zip (vals.drop k)).map (·.1)).eraseDups.length != ((params.drop k).zip (vals.drop k)).length) = false := by
    rw [eraseDups_of_nodup _ (zip_keys_nodup _ _ hpd)]
    simp
  simp only [h1, if_false, h2, h3, Bool.false_eq_true]
  rw [filterMap_find_zip _ _ hpd]
  congr 1
  conv => rhs; rw [← List.take_append_drop k (params.zip vals)]
  simp [List.zip, List.take_zipWith, List.drop_zipWith]

theorem forward_split (params : List String) (vals : List Rat) (k : Nat) (hp : params.Nodup) (hl : vals.length ≤ params.length) (hk : k ≤ vals.length) :
    forward params (vals.take k) (((params.zip vals).drop k)) = forward params vals [] := by
  unfold forward
  rw [bindArgs_split params vals k hp hl hk, bindArgs_all_pos params vals hl]

theorem getMethod_case (lower : String → String) (hl : ∀ s, lower (lower s) = lower s) (reg : List String) (name : String) :
    getMethod lower reg name = getMethod lower reg (lower name) := by
  simp [getMethod, hl]
theorem getMethod_total (lower : String → String) (reg : List String) (name : String) (h : lower name ∈ reg) :
    getMethod lower reg name = some (lower name) := by
  unfold getMethod
  induction reg with
  | nil => simp at h
  | cons a r ih =>
    by_cases ha : a = lower name
    · simp [ha]
    · have : lower name ∈ r := by
        rcases List.mem_cons.1 h with h | h
        · exact absurd h.symm ha
        · exact h
      simp [ha, ih this]

/-! ### loop skeleton -/

theorem loopFrom_spec (d : Nat → Rat) (exit : Nat → Bool) (tol : Rat) (r k : Nat) :
    let res := loopFrom d exit tol r k
    k ≤ res.1 ∧ res.1 ≤ k + r ∧
    (∀ j, k ≤ j → j < res.1 → exit j = false) ∧
    (res.2 = .converged → k + 1 ≤ res.1 ∧ d (res.1 - 1) < tol ∧ ∀ j, k ≤ j → j + 1 < res.1 → ¬ d j < tol) ∧
    (res.2 = .exhausted → res.1 = k + r ∧ ∀ j, k ≤ j → j < res.1 → ¬ d j < tol) ∧
    (res.2 = .early → res.1 < k + r ∧ exit res.1 = true ∧ ∀ j, k ≤ j → j < res.1 → ¬ d j < tol) := by
  induction r generalizing k with
  | zero =>
    simp only [loopFrom]
    refine ⟨Nat.le_refl _, Nat.le_refl _, ?_, ?_, ?_, ?_⟩
    · intro j h1 h2; omega
    · intro h; cases h
    · intro _; exact ⟨rfl, fun j h1 h2 => by omega⟩
    · intro h; cases h
  | succ r ih =>
    simp only [loopFrom]
    by_cases he : exit k = true
    · simp only [he, if_true]
      refine ⟨Nat.le_refl _, by omega, ?_, ?_, ?_, ?_⟩
      · intro j h1 h2; omega
      · intro h; cases h
      · intro h; cases h
      · intro _; exact ⟨by omega, trivial, fun j h1 h2 => by omega⟩
    · have he' : exit k = false := by simpa using he
      by_cases hd : d k < tol
      · simp only [he', hd, if_true, Bool.false_eq_true, if_false]
        refine ⟨by omega, by omega, ?_, ?_, ?_, ?_⟩
        · intro j h1 h2
          have : j = k := by omega
          subst this; exact he'
        · intro _; exact ⟨by omega, by simpa using hd, fun j h1 h2 => by omega⟩
        · intro h; cases h
        · intro h; cases h
      · simp only [he', hd, Bool.false_eq_true, if_false]
        obtain ⟨h1, h2, h3, h4, h5, h6⟩ := ih (k + 1)
        refine ⟨by omega, by omega, ?_, ?_, ?_, ?_⟩
        · intro j hj1 hj2
          by_cases hjk : j = k
          · subst hjk; exact he'
          · exact h3 j (by omega) hj2
        · intro hc
          obtain ⟨a, b, c⟩ := h4 hc
          refine ⟨by omega, b, fun j hj1 hj2 => ?_⟩
          by_cases hjk : j = k
          · subst hjk; exact hd
          · exact c j (by omega) hj2
        · intro hc
          obtain ⟨a, c⟩ := h5 hc
          refine ⟨by omega, fun j hj1 hj2 => ?_⟩
          by_cases hjk : j = k
          · subst hjk; exact hd
          · exact c j (by omega) hj2
        · intro hc
          obtain ⟨a, b, c⟩ := h6 hc
          refine ⟨by omega, b, fun j hj1 hj2 => ?_⟩
          by_cases hjk : j = k
          · subst hjk; exact hd
          · exact c j (by omega) hj2

theorem loop_len_le (budget : Nat) (tol : Rat) (d : Nat → Rat) (exit : Nat → Bool) :
    (runLoop budget tol d exit).1 ≤ budget := by
  have := (loopFrom_spec d exit tol budget 0).2.1
  simpa [runLoop] using this

theorem loop_converged (budget : Nat) (tol : Rat) (d : Nat → Rat) (exit : Nat → Bool) (len : Nat)
    (h : runLoop budget tol d exit = (len, .converged)) :
    1 ≤ len ∧ len ≤ budget ∧ d (len - 1) < tol ∧ (∀ k, k + 1 < len → ¬ d k < tol) ∧ (∀ k, k < len → exit k = false) := by
  have := loopFrom_spec d exit tol budget 0
  unfold runLoop at h
  simp only [h] at this
  obtain ⟨-, h2, h3, h4, -, -⟩ := this
  obtain ⟨a, b, c⟩ := h4 trivial
  exact ⟨by omega, by omega, b, fun k hk => c k (Nat.zero_le _) hk, fun k hk => h3 k (Nat.zero_le _) hk⟩
theorem loop_exhausted (budget : Nat) (tol : Rat) (d : Nat → Rat) (exit : Nat → Bool) (len : Nat)
    (h : runLoop budget tol d exit = (len, .exhausted)) :
    len = budget ∧ (∀ k, k < len → ¬ d k < tol) ∧ (∀ k, k < len → exit k = false) := by
  have := loopFrom_spec d exit tol budget 0
  unfold runLoop at h
  simp only [h] at this
  obtain ⟨-, h2, h3, -, h5, -⟩ := this
  obtain ⟨a, c⟩ := h5 trivial
  exact ⟨by omega, fun k hk => c k (Nat.zero_le _) hk, fun k hk => h3 k (Nat.zero_le _) hk⟩
theorem loop_early (budget : Nat) (tol : Rat) (d : Nat → Rat) (exit : Nat → Bool) (len : Nat)
    (h : runLoop budget tol d exit = (len, .early)) :
    len < budget ∧ exit len = true ∧ (∀ k, k < len → ¬ d k < tol) ∧ (∀ k, k < len → exit k = false) := by
  have := loopFrom_spec d exit tol budget 0
  unfold runLoop at h
  simp only [h] at this
  obtain ⟨-, h2, h3, -, -, h6⟩ := this
  obtain ⟨a, b, c⟩ := h6 trivial
  exact ⟨by omega, b, fun k hk => c k (Nat.zero_le _) hk, fun k hk => h3 k (Nat.zero_le _) hk⟩

/-- one more step of budget never shortens the run -/
theorem loopFrom_mono (d : Nat → Rat) (exit : Nat → Bool) (tol : Rat) (r k : Nat) :
    (loopFrom d exit tol r k).1 ≤ (loopFrom d exit tol (r + 1) k).1 := by
  induction r generalizing k with
  | zero =>
    simp only [loopFrom]
    have := (loopFrom_spec d exit tol 1 k).1
    simpa [loopFrom] using this
  | succ r ih =>
    rw [loopFrom, loopFrom.eq_2 (r := r + 1)]
    by_cases he : exit k = true
    · simp [he]
    · by_cases hd : d k < tol
      · simp [he, hd]
      · simp only [he, hd, if_false]
        exact ih (k + 1)

theorem history_prefix (b : Nat) (tol : Rat) (d : Nat → Rat) (exit : Nat → Bool) :
    (history b tol d exit) <+: (history (b + 1) tol d exit) := by
  unfold history runLoop
  have h := loopFrom_mono d exit tol b 0
  obtain ⟨c, hc⟩ := Nat.exists_eq_add_of_le h
  rw [hc, List.range_add, List.map_append]
  exact List.prefix_append _ _

theorem returned_pairing (budget : Nat) (tol : Rat) (d : Nat → Rat) (exit : Nat → Bool) :
    let r := returned budget tol d exit
    ((runLoop budget tol d exit).2 = .converged → r.2 = some r.1) ∧
    ((runLoop budget tol d exit).2 = .early → r.2 = some r.1) ∧
    ((runLoop budget tol d exit).2 = .exhausted → 0 < budget → r.2 = some (r.1 - 1) ∧ r.1 = budget) := by
  intro r
  generalize hr : runLoop budget tol d exit = res at *
  obtain ⟨len, s⟩ := res
  have hr' : r = returned budget tol d exit := rfl
  unfold returned at hr'
  rw [hr] at hr'
  cases s
  · simp at hr'; simp [hr']
  · have := (loop_exhausted budget tol d exit len hr).1
    simp at hr'
    refine ⟨by simp, by simp, fun _ hb => ?_⟩
    have hl : len ≠ 0 := by omega
    subst this
    simp [hr', hl]
  · simp at hr'; simp [hr']

end PbVerif.Lemmas
