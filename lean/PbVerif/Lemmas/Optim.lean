import PbVerif.Model.Optim
/-! Helper lemmas for C17 (proofs). -/
namespace PbVerif.Lemmas
open PbVerif.Optim

/-- cutting back after padding returns the user's per-point array, for every side and width -/
theorem cutBack_padSide (side : Side) (k : Nat) (v : List Rat) : cutBack side k (padSide side k v) = v := by
  cases side <;> simp [padSide, cutBack, List.take_append]

/-- the method parameters cut back from an extended fit of length `N + added` have the data's length -/
theorem cutBack_length (side : Side) (k : Nat) (v : List Rat) (n : Nat)
    (h : v.length = n + (if side = .both then 2 * k else k)) : (cutBack side k v).length = n := by
  cases side <;> simp [cutBack] at h ⊢ <;> omega

/-- the constrained weights differ from the weights exactly on the first `c0` and last `c1` points -/
theorem constrainedWeights_spec (w : List Rat) (c0 c1 : Nat) (w0 w1 : Rat) (i : Nat) (hi : i < w.length) :
    (constrainedWeights w c0 c1 w0 w1).getD i 0 =
      if w.length - c1 ≤ i then w1 else if i < c0 then w0 else w.getD i 0 := by
  simp [constrainedWeights, List.getD_eq_getElem?_getD, hi]

theorem rollTake_eq (b : List Rat) (shift m : Nat) (t : List Rat) (ht : t.length = m)
    (h : ∀ j, j < m → b[(j + b.length - shift % b.length) % b.length]? = t[j]?) :
    rollTake b shift m = t := by
  apply List.ext_getElem?
  intro j
  by_cases hj : j < m
  · simp [rollTake, hj, List.getD_eq_getElem?_getD, h j hj]
    have : j < t.length := by omega
    simp [this]
  · simp [rollTake, hj]
    omega

/-- the rolled slice is exactly the fit on the added right block followed by the added left block —
the order in which `known_background` is assembled — for an extended fit `left ++ mid ++ right` -/
theorem addedPart_both (k : Nat) (l m r : List Rat) (hl : l.length = k) (hr : r.length = k) (hk : 0 < k) :
    addedPart .both k (l ++ m ++ r) = r ++ l := by
  simp only [addedPart, reduceCtorEq, ↓reduceIte]
  apply rollTake_eq
  · simp; omega
  · intro j hj
    simp only [List.length_append, hl, hr]
    have h1 : k % (k + m.length + k) = k := Nat.mod_eq_of_lt (by omega)
    rw [h1]
    by_cases hjk : j < k
    · rw [Nat.mod_eq_of_lt (by omega)]
      rw [List.getElem?_append_right (by simp; omega)]
      rw [List.getElem?_append_left (by omega)]
      congr 1; simp; omega
    · have : j + (k + m.length + k) - k = (j - k) + (k + m.length + k) := by omega
      rw [this, Nat.add_mod_right, Nat.mod_eq_of_lt (by omega)]
      rw [List.append_assoc, List.getElem?_append_left (by omega)]
      rw [List.getElem?_append_right (by omega)]
      congr 1; omega

theorem addedPart_right (k : Nat) (m r : List Rat) (hr : r.length = k) (hk : 0 < k) :
    addedPart .right k (m ++ r) = r := by
  simp only [addedPart, reduceCtorEq, ↓reduceIte]
  apply rollTake_eq
  · omega
  · intro j hj
    simp only [List.length_append, hr]
    by_cases hm : m.length = 0
    · have : m = [] := List.length_eq_zero_iff.mp hm
      subst this
      simp [Nat.mod_eq_of_lt hj]
    · have h1 : k % (m.length + k) = k := Nat.mod_eq_of_lt (by omega)
      rw [h1, Nat.mod_eq_of_lt (by omega)]
      rw [List.getElem?_append_right (by omega)]
      congr 1; omega

theorem addedPart_left (k : Nat) (l m : List Rat) (hl : l.length = k) (hk : 0 < k) :
    addedPart .left k (l ++ m) = l := by
  simp only [addedPart, reduceCtorEq, ↓reduceIte]
  apply rollTake_eq
  · omega
  · intro j hj
    simp only [List.length_append, hl]
    simp
    rw [Nat.mod_eq_of_lt (by omega)]
    rw [List.getElem?_append_left (by omega)]

theorem argminFirst_aux (l : List Rat) (f : Nat × Option Rat → Nat → Nat × Option Rat)
    (hnone : ∀ a i, f (a, none) i = (i, some (l.getD i 0)))
    (hsome : ∀ a m i, f (a, some m) i = if l.getD i 0 < m then (i, some (l.getD i 0)) else (a, some m))
    (n : Nat) :
    ∃ i, (List.range (n+1)).foldl f (0, none)
      = (i, some (l.getD i 0)) ∧ i < n + 1 ∧ (∀ j, j < n + 1 → l.getD i 0 ≤ l.getD j 0) ∧
        (∀ j, j < i → l.getD i 0 < l.getD j 0) := by
  induction n with
  | zero =>
    refine ⟨0, ?_, by omega, ?_, ?_⟩
    · simp [List.range_succ, hnone]
    · intro j hj
      have : j = 0 := by omega
      subst this; exact Rat.le_refl
    · intro j hj; omega
  | succ n ih =>
    obtain ⟨i, h1, h2, h3, h4⟩ := ih
    rw [List.range_succ, List.foldl_append, h1]
    simp only [List.foldl_cons, List.foldl_nil, hsome]
    by_cases hlt : l.getD (n+1) 0 < l.getD i 0
    · refine ⟨n+1, ?_, by omega, ?_, ?_⟩
      · rw [if_pos hlt]
      · intro j hj
        by_cases hj' : j < n + 1
        · have := h3 j hj'; grind
        · have : j = n + 1 := by omega
          subst this; exact Rat.le_refl
      · intro j hj
        have := h3 j hj; grind
    · refine ⟨i, ?_, by omega, ?_, h4⟩
      · rw [if_neg hlt]
      · intro j hj
        by_cases hj' : j < n + 1
        · exact h3 j hj'
        · have : j = n + 1 := by omega
          subst this; grind

theorem argminFirst_aux' (l : List Rat) (f : Nat × Option Rat → Nat → Nat × Option Rat)
    (hnone : ∀ a i, f (a, none) i = (i, some (l.getD i 0)))
    (hsome : ∀ a m i, f (a, some m) i = if l.getD i 0 < m then (i, some (l.getD i 0)) else (a, some m))
    (hpos : 0 < l.length) :
    ((List.range l.length).foldl f (0, none)).1 < l.length ∧
    (∀ j, j < l.length → l.getD ((List.range l.length).foldl f (0, none)).1 0 ≤ l.getD j 0) ∧
    (∀ j, j < ((List.range l.length).foldl f (0, none)).1 →
      l.getD ((List.range l.length).foldl f (0, none)).1 0 < l.getD j 0) := by
  obtain ⟨i, h1, h2, h3, h4⟩ := argminFirst_aux l f hnone hsome (l.length - 1)
  have e : l.length - 1 + 1 = l.length := by omega
  rw [e] at h1 h2 h3
  rw [h1]
  exact ⟨h2, h3, h4⟩

/-- the reported optimal parameter is a FIRST minimiser of the reported errors -/
theorem argminFirst_spec (l : List Rat) (h : l ≠ []) :
    argminFirst l < l.length ∧ (∀ j, j < l.length → l.getD (argminFirst l) 0 ≤ l.getD j 0) ∧
    (∀ j, j < argminFirst l → l.getD (argminFirst l) 0 < l.getD j 0) := by
  have hpos : 0 < l.length := List.length_pos_iff.mpr h
  unfold argminFirst
  exact argminFirst_aux' l _ (fun a i => rfl) (fun a m i => rfl) hpos

theorem sectionIdx_full (n : Nat) (hn : 2 ≤ n) : sectionIdx 0 n 1 = List.range (n + 1) := by
  have h0 : ¬ n = 0 := by omega
  simp only [sectionIdx, Nat.sub_zero, Nat.div_one, if_neg h0, Nat.zero_add]
  apply List.ext_getElem?
  intro i
  by_cases hi : i < n + 1
  · simp [hi, Nat.mul_div_cancel _ (by omega : 0 < n)]
  · simp [hi]

theorem zip_range_tail (n : Nat) :
    (List.range (n + 1)).zip (List.range (n + 1)).tail = (List.range n).map (fun i => (i, i + 1)) := by
  apply List.ext_getElem?
  intro i
  by_cases hi : i < n
  · have : i < n + 1 := by omega
    simp [hi, List.zip_eq_zipWith]
    omega
  · simp [hi, List.zip_eq_zipWith]

/-- `custom_bc` with one full region and unit sampling averages every single point with itself and
keeps no other point: x_fit = x, y_fit = y -/
theorem customBc_identity_plan (n : Nat) (hn : 2 ≤ n) :
    (customBcPlan n [(0, n, 1)]).sections = (List.range n).map (fun i => (i, i + 1)) ∧
    (customBcPlan n [(0, n, 1)]).mask = List.replicate n false := by
  have hF : (((List.range n).map (fun i => (i, i + 1))).any fun p => p.1 == 0 && p.2 == 1) = true := by
    rw [List.any_eq_true]
    exact ⟨(0, 1), by simp; omega, by simp⟩
  have hL : (((List.range n).map (fun i => (i, i + 1))).any fun p => p.2 == n && p.1 + 1 == n) = true := by
    rw [List.any_eq_true]
    refine ⟨(n - 1, n), ?_, ?_⟩
    · simp only [List.mem_map, List.mem_range]; exact ⟨n - 1, by omega, by congr 1; omega⟩
    · simp; omega
  have hmask : ((List.range n).map fun (i : Nat) => if 0 ≤ i ∧ i < n then false else (List.replicate n true).getD i true)
      = List.replicate n false := by
    apply List.ext_getElem?
    intro i
    by_cases hi : i < n
    · simp [hi]
    · simp [hi]
  simp only [customBcPlan, List.foldl_cons, List.foldl_nil, sectionIdx_full n hn, zip_range_tail, hF, hL, hmask]
  simp

theorem rat_le_max_left (a b : Rat) : a ≤ max a b := by grind
theorem rat_le_max_right (a b : Rat) : b ≤ max a b := by grind
theorem rat_max_choice (a b : Rat) : max a b = a ∨ max a b = b := by grind

theorem zipMax_getD (a b : List Rat) (n i : Nat) (ha : a.length = n) (hb : b.length = n) (hi : i < n) :
    (List.zipWith max a b).getD i 0 = max (a.getD i 0) (b.getD i 0) := by
  simp [List.getD_eq_getElem?_getD, ha, hb, hi]

theorem foldMax_spec (rest : List (List Rat)) (n : Nat) (h : ∀ b ∈ rest, b.length = n) (i : Nat) (hi : i < n) :
    ∀ acc : List Rat, acc.length = n →
      (rest.foldl (fun acc r => List.zipWith max acc r) acc).length = n ∧
      acc.getD i 0 ≤ (rest.foldl (fun acc r => List.zipWith max acc r) acc).getD i 0 ∧
      (∀ r ∈ rest, r.getD i 0 ≤ (rest.foldl (fun acc r => List.zipWith max acc r) acc).getD i 0) ∧
      ((rest.foldl (fun acc r => List.zipWith max acc r) acc).getD i 0 = acc.getD i 0 ∨
        ∃ r ∈ rest, (rest.foldl (fun acc r => List.zipWith max acc r) acc).getD i 0 = r.getD i 0) := by
  induction rest with
  | nil => intro acc hacc; simp [hacc]
  | cons r rest ih =>
    intro acc hacc
    have hr : r.length = n := h r (by simp)
    have hz : (List.zipWith max acc r).length = n := by simp [hacc, hr]
    obtain ⟨h1, h2, h3, h4⟩ := ih (fun b hb => h b (by simp [hb])) _ hz
    rw [zipMax_getD acc r n i hacc hr hi] at h2 h4
    simp only [List.foldl_cons]
    refine ⟨h1, ?_, ?_, ?_⟩
    · exact Rat.le_trans (rat_le_max_left _ _) h2
    · intro r' hr'
      rcases List.mem_cons.mp hr' with rfl | hr'
      · exact Rat.le_trans (rat_le_max_right _ _) h2
      · exact h3 r' hr'
    · rcases h4 with h4 | ⟨r', hr', h4⟩
      · rcases rat_max_choice (acc.getD i 0) (r.getD i 0) with e | e
        · left; rw [h4, e]
        · right; exact ⟨r, by simp, by rw [h4, e]⟩
      · right; exact ⟨r', by simp [hr'], h4⟩

/-- the result of `adaptive_minmax` dominates each of the four fits and is attained by one of them -/
theorem pointwiseMax_ge (bs : List (List Rat)) (n : Nat) (h : ∀ b ∈ bs, b.length = n) (b : List Rat) (hb : b ∈ bs)
    (i : Nat) (hi : i < n) : b.getD i 0 ≤ (pointwiseMax bs).getD i 0 := by
  cases bs with
  | nil => simp at hb
  | cons b0 rest =>
    obtain ⟨h1, h2, h3, h4⟩ := foldMax_spec rest n (fun b hb => h b (by simp [hb])) i hi b0 (h b0 (by simp))
    simp only [pointwiseMax]
    rcases List.mem_cons.mp hb with rfl | hb
    · exact h2
    · exact h3 b hb

theorem pointwiseMax_attained (bs : List (List Rat)) (n : Nat) (h : ∀ b ∈ bs, b.length = n) (hne : bs ≠ [])
    (i : Nat) (hi : i < n) : ∃ b ∈ bs, (pointwiseMax bs).getD i 0 = b.getD i 0 := by
  cases bs with
  | nil => simp at hne
  | cons b0 rest =>
    obtain ⟨h1, h2, h3, h4⟩ := foldMax_spec rest n (fun b hb => h b (by simp [hb])) i hi b0 (h b0 (by simp))
    simp only [pointwiseMax]
    rcases h4 with h4 | ⟨r, hr, h4⟩
    · exact ⟨b0, by simp, h4⟩
    · exact ⟨r, by simp [hr], h4⟩

end PbVerif.Lemmas
