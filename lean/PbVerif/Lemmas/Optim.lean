import PbVerif.Model.Optim
/-! Helper lemmas for C17 (proofs). -/
namespace PbVerif.Lemmas
open PbVerif.Optim

/-- cutting back after padding returns the user's per-point array, for every side and width -/
theorem cutBack_padSide (side : Side) (k : Nat) (v : List Rat) : cutBack side k (padSide side k v) = v := by sorry

/-- the method parameters cut back from an extended fit of length `N + added` have the data's length -/
theorem cutBack_length (side : Side) (k : Nat) (v : List Rat) (n : Nat)
    (h : v.length = n + (if side = .both then 2 * k else k)) : (cutBack side k v).length = n := by sorry

/-- the rolled slice is exactly the fit on the added right block followed by the added left block —
the order in which `known_background` is assembled — for an extended fit `left ++ mid ++ right` -/
theorem addedPart_both (k : Nat) (l m r : List Rat) (hl : l.length = k) (hr : r.length = k) (hk : 0 < k) :
    addedPart .both k (l ++ m ++ r) = r ++ l := by sorry
theorem addedPart_right (k : Nat) (m r : List Rat) (hr : r.length = k) (hk : 0 < k) :
    addedPart .right k (m ++ r) = r := by sorry
theorem addedPart_left (k : Nat) (l m : List Rat) (hl : l.length = k) (hk : 0 < k) :
    addedPart .left k (l ++ m) = l := by sorry

/-- the reported optimal parameter is a FIRST minimiser of the reported errors -/
theorem argminFirst_spec (l : List Rat) (h : l ≠ []) :
    argminFirst l < l.length ∧ (∀ j, j < l.length → l.getD (argminFirst l) 0 ≤ l.getD j 0) ∧
    (∀ j, j < argminFirst l → l.getD (argminFirst l) 0 < l.getD j 0) := by sorry

/-- `custom_bc` with one full region and unit sampling averages every single point with itself and
keeps no other point: x_fit = x, y_fit = y -/
theorem customBc_identity_plan (n : Nat) (hn : 2 ≤ n) :
    (customBcPlan n [(0, n, 1)]).sections = (List.range n).map (fun i => (i, i + 1)) ∧
    (customBcPlan n [(0, n, 1)]).mask = List.replicate n false := by sorry

/-- the constrained weights differ from the weights exactly on the first `c0` and last `c1` points -/
theorem constrainedWeights_spec (w : List Rat) (c0 c1 : Nat) (w0 w1 : Rat) (i : Nat) (hi : i < w.length) :
    (constrainedWeights w c0 c1 w0 w1).getD i 0 =
      if w.length - c1 ≤ i then w1 else if i < c0 then w0 else w.getD i 0 := by sorry

/-- the result of `adaptive_minmax` dominates each of the four fits and is attained by one of them -/
theorem pointwiseMax_ge (bs : List (List Rat)) (n : Nat) (h : ∀ b ∈ bs, b.length = n) (b : List Rat) (hb : b ∈ bs)
    (i : Nat) (hi : i < n) : b.getD i 0 ≤ (pointwiseMax bs).getD i 0 := by sorry
theorem pointwiseMax_attained (bs : List (List Rat)) (n : Nat) (h : ∀ b ∈ bs, b.length = n) (hne : bs ≠ [])
    (i : Nat) (hi : i < n) : ∃ b ∈ bs, (pointwiseMax bs).getD i 0 = b.getD i 0 := by sorry

end PbVerif.Lemmas
