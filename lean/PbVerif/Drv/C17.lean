import PbVerif.Model.Proto
import PbVerif.Model.Optim
namespace PbVerif.Drv.C17
open PbVerif PbVerif.Proto PbVerif.Optim

def side? : String → Option Side
  | "left" => some .left | "right" => some .right | "both" => some .both | _ => none

def parseRegion? (s : String) : Option (Nat × Nat × Nat) :=
  match s.splitOn "," with
  | [a, b, c] => do some ((← a.toNat?), (← b.toNat?), (← c.toNat?))
  | _ => none

def handle : List String → Option String
  | ["c17.plan", n, regions] => do
      let n ← n.toNat?
      let rs ← (regions.splitOn ";").mapM parseRegion?
      let p := customBcPlan n rs
      let secs := if p.sections.isEmpty then "-" else ";".intercalate (p.sections.map fun (a, b) => s!"{a},{b}")
      some s!"{secs}|{String.ofList (p.mask.map fun b => if b then '1' else '0')}"
  | ["c17.added", side, k, b] => do
      some (showRats (addedPart (← side? side) (← k.toNat?) (← parseList? parseRat? b)))
  | ["c17.padcut", side, k, v] => do
      let s ← side? side
      let k ← k.toNat?
      let v ← parseList? parseRat? v
      some s!"{showRats (padSide s k v)}|{showRats (cutBack s k (padSide s k v))}"
  | ["c17.argmin", l] => do some (toString (argminFirst (← parseList? parseRat? l)))
  | ["c17.cw", c0, c1, w0, w1, w] => do
      some (showRats (constrainedWeights (← parseList? parseRat? w) (← c0.toNat?) (← c1.toNat?) (← parseRat? w0) (← parseRat? w1)))
  | _ => none

end PbVerif.Drv.C17
