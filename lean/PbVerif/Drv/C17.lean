import PbVerif.Model.Proto
import PbVerif.Model.Optim
import PbVerif.Model.Collab
namespace PbVerif.Drv.C17
open PbVerif PbVerif.Proto PbVerif.Optim

def side? : String → Option Side
  | "left" => some .left | "right" => some .right | "both" => some .both | _ => none

def parseRegion? (s : String) : Option (Nat × Nat × Nat) :=
  match s.splitOn "," with
  | [a, b, c] => do some ((← a.toNat?), (← b.toNat?), (← c.toNat?))
  | _ => none

/-! collab_pls: serialisation of plans and of resolved call traces -/
open PbVerif.Collab in
def showVal : Val → String
  | .user t => s!"u:{t}"
  | .inf => "inf"
  | .true_ => "true"
  | .fitWeights c => s!"fw:{c}"
  | .fitAlpha c => s!"fa:{c}"
  | .meanWeights cs => "mw:" ++ "+".intercalate (cs.map toString)
  | .meanAlpha cs => "ma:" ++ "+".intercalate (cs.map toString)
open PbVerif.Collab in
def showKw (kw : Kw) : String :=
  if kw.isEmpty then "-" else ",".intercalate (kw.map fun p => s!"{p.1}={showVal p.2}")
open PbVerif.Collab in
def showCall (c : Call) : String :=
  (match c.data with | .mean => "mean" | .entry i => s!"e{i}") ++ "|" ++ showKw c.kw
open PbVerif.Collab in
def showPlan (p : Plan) : String :=
  "#".intercalate ["ok", if p.calls.isEmpty then "-" else ";".intercalate (p.calls.map showCall), showNats p.results,
    showVal p.avgWeights, (p.avgAlpha.map showVal).getD "none"]
/-- the user's dictionary: keys only, the value under key `k` is the opaque `user k` -/
def userKw? (s : String) : Option Collab.Kw :=
  if s = "-" then some [] else some ((s.splitOn ",").map fun k => (k, Collab.Val.user k))
def showArg : Collab.Arg → String
  | .user t => s!"u:{t}"
  | .inf => "inf"
  | .true_ => "true"
  | .arr v => "arr:" ++ showRats v
def c17Mat? (s : String) : Option (List (List Rat)) :=
  if s = "-" then some [] else (s.splitOn ";").mapM (parseList? parseRat?)
def c17ShowMat (m : List (List Rat)) : String :=
  if m.isEmpty then "-" else ";".intercalate (m.map showRats)
/-- recorded fits `baseline~weights~alpha;…`, one per call -/
def fits? (s : String) : Option (List Collab.Fit) :=
  if s = "-" then some [] else (s.splitOn ";").mapM fun t =>
    match t.splitOn "~" with
    | [b, w, a] => do some ⟨← parseList? parseRat? b, ← parseList? parseRat? w, ← parseList? parseRat? a⟩
    | _ => none

def handle : List String → Option String
  | ["c17.collabplan", twoD, known, ndim, method, k, avg, user] => do
      -- `method.lower()` (ASCII names)
      match Collab.collabCall (twoD == "1") (known == "1") (← ndim.toNat?) method.toLower (← k.toNat?) (avg == "1") (← userKw? user) with
      | .error .attributeError => some "error#AttributeError"
      | .error .keyError => some "error#KeyError"
      | .error .valueError => some "error#ValueError"
      | .ok p => some (showPlan p)
  | ["c17.overridden", twoD, method] =>
      some (",".intercalate (Collab.overridden (Collab.family (twoD == "1") method.toLower)))
  | ["c17.mean", rows] => do some (showRats (Collab.meanRows (← c17Mat? rows)))
  | ["c17.collabrun", twoD, method, avg, user, ds, fits] => do
      let ds ← c17Mat? ds
      let fits ← fits? fits
      -- the wrapped method as an oracle column: the n-th fit returns what the real n-th fit returned
      let f : Collab.Method := fun n _ _ => fits.getD n default
      let out := Collab.runCollab f (twoD == "1") method.toLower (avg == "1") (← userKw? user) ds
      let showRec (r : Collab.Rec) : String :=
        showRats r.data ++ "~" ++ (if r.kw.isEmpty then "-" else "&".intercalate (r.kw.map fun p => s!"{p.1}={showArg p.2}"))
      some ("#".intercalate [if out.trace.isEmpty then "-" else ";".intercalate (out.trace.map showRec), c17ShowMat out.baselines,
        showArg out.avgWeights, (out.avgAlpha.map showArg).getD "none"])
  | ["c17.plan", n, regions] => do
      let n ← n.toNat?
      let rs ← (regions.splitOn ";").mapM parseRegion?
      let p := customBcPlan n rs
      let secs := if p.sections.isEmpty then "-" else ";".intercalate (p.sections.map fun (a, b) => s!"{a},{b}")
      some s!"{secs}|{String.ofList (p.mask.map fun b => if b then '1' else '0')}"
  | ["c17.added", side, k, b] => do
      some (showRats (addedPart (← side? side) (← k.toNat?) (← parseList? parseRat? b)))
  | ["c17.padcut", side, k, v] => do
      let s ← side? side
      let k ← k.toNat?
      let v ← parseList? parseRat? v
      some s!"{showRats (padSide s k v)}|{showRats (cutBack s k (padSide s k v))}"
  | ["c17.argmin", l] => do some (toString (argminFirst (← parseList? parseRat? l)))
  | ["c17.cw", c0, c1, w0, w1, w] => do
      some (showRats (constrainedWeights (← parseList? parseRat? w) (← c0.toNat?) (← c1.toNat?) (← parseRat? w0) (← parseRat? w1)))
  | _ => none

end PbVerif.Drv.C17
