import PbVerif.Model.Proto
import PbVerif.Model.Whittaker
namespace PbVerif.Drv.C06
open PbVerif PbVerif.Proto PbVerif.Whittaker

def showMat (m : List (List Rat)) : String :=
  if m.isEmpty then "-" else ";".intercalate (m.map showRats)
def kind? : String → Option Kind
  | "std" => some .std | "iasls" => some .iasls | "drpls" => some .drpls | "aspls" => some .aspls | _ => none
def b (s : String) : Bool := s == "1"

def handle : List String → Option String
  | ["c06.asm", kind, n, d, lam, p1, f1, f2, w, alpha] => do
      -- f1, f2: (lower, reversed) for std/iasls; (pentapy, -) for drpls/aspls
      let n ← n.toNat?
      let d ← d.toNat?
      let lam ← parseRat? lam
      let p1 ← parseRat? p1
      let w ← parseList? parseRat? w
      let alpha ← parseList? parseRat? alpha
      let r := match (← kind? kind) with
        | .std => asmStd n d lam w (b f1) (b f2)
        | .iasls => asmIasls n d lam p1 w (b f1) (b f2)
        | .drpls => asmDrpls n d lam p1 w (b f1)
        | .aspls => asmAspls n d lam w alpha (b f1)
      some (showMat r)
  | ["c06.berr", kind, n, d, lam, p1, w, alpha, y, v] => do
      let k ← kind? kind
      let n ← n.toNat?
      let d ← d.toNat?
      let lam ← parseRat? lam
      let p1 ← parseRat? p1
      let w ← parseList? parseRat? w
      let alpha ← parseList? parseRat? alpha
      let y ← parseList? parseRat? y
      let v ← parseList? parseRat? v
      let r := backwardError (docFast k n d lam p1 w alpha) n d v (rhsDoc k p1 w y)
      some s!"{showRat r.1} {showRat r.2}"
  | ["c06.berr2d", m, n, dr, dc, lamr, lamc, w, y, v] => do
      let m ← m.toNat?
      let n ← n.toNat?
      let w ← parseList? parseRat? w
      let y ← parseList? parseRat? y
      let v ← parseList? parseRat? v
      let r := backwardErrorDense (doc2d m n (← dr.toNat?) (← dc.toNat?) (← parseRat? lamr) (← parseRat? lamc) w) (m * n) v (List.zipWith (· * ·) w y)
      some s!"{showRat r.1} {showRat r.2}"
  | ["c06.asmjbcd", n, d, c, diag, lower, reversed] => do
      some (showMat (asmJbcd (← n.toNat?) (← d.toNat?) (← parseRat? c) (← parseRat? diag) (b lower) (b reversed)))
  | ["c06.asm2d", m, n, dr, dc, lamr, lamc, w] => do
      some (showMat (asm2dRows (← m.toNat?) (← n.toNat?) (← dr.toNat?) (← dc.toNat?) (← parseRat? lamr) (← parseRat? lamc) (← parseList? parseRat? w)))
  | _ => none

end PbVerif.Drv.C06
