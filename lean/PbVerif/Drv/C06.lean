import PbVerif.Model.Proto
import PbVerif.Model.Whittaker
import PbVerif.Model.LoopS
namespace PbVerif.Drv.C06
open PbVerif PbVerif.Proto PbVerif.Whittaker PbVerif.Loop

def showMat (m : List (List Rat)) : String :=
  if m.isEmpty then "-" else ";".intercalate (m.map showRats)
def kind? : String → Option Kind
  | "std" => some .std | "iasls" => some .iasls | "drpls" => some .drpls | "aspls" => some .aspls | _ => none
def b (s : String) : Bool := s == "1"

def reasonStr : Stop → String
  | .converged => "converged" | .exhausted => "exhausted" | .early => "early"
def optNat : Option Nat → String
  | some k => toString k | none => "-"
/-- the t-th character of a decision string as a digit (missing = 0) -/
def digitAt (s : String) (t : Nat) : Nat := match s.toList[t]? with | some c => c.toNat - '0'.toNat | none => 0

def handle : List String → Option String
  | ["c06.asm", kind, n, d, lam, p1, f1, f2, w, alpha] => do
      -- f1, f2: (lower, reversed) for std/iasls; (pentapy, -) for drpls/aspls
      let n ← n.toNat?
      let d ← d.toNat?
      let lam ← parseRat? lam
      let p1 ← parseRat? p1
      let w ← parseList? parseRat? w
      let alpha ← parseList? parseRat? alpha
      let r := match (← kind? kind) with
        | .std => asmStd n d lam w (b f1) (b f2)
        | .iasls => asmIasls n d lam p1 w (b f1) (b f2)
        | .drpls => asmDrpls n d lam p1 w (b f1)
        | .aspls => asmAspls n d lam w alpha (b f1)
      some (showMat r)
  | ["c06.berr", kind, n, d, lam, p1, w, alpha, y, v] => do
      let k ← kind? kind
      let n ← n.toNat?
      let d ← d.toNat?
      let lam ← parseRat? lam
      let p1 ← parseRat? p1
      let w ← parseList? parseRat? w
      let alpha ← parseList? parseRat? alpha
      let y ← parseList? parseRat? y
      let v ← parseList? parseRat? v
      let r := backwardError (docFast k n d lam p1 w alpha) n d v (rhsDoc k p1 w y)
      some s!"{showRat r.1} {showRat r.2}"
  | ["c06.berr2d", m, n, dr, dc, lamr, lamc, w, y, v] => do
      let m ← m.toNat?
      let n ← n.toNat?
      let w ← parseList? parseRat? w
      let y ← parseList? parseRat? y
      let v ← parseList? parseRat? v
      let r := backwardErrorDense (doc2d m n (← dr.toNat?) (← dc.toNat?) (← parseRat? lamr) (← parseRat? lamc) w) (m * n) v (List.zipWith (· * ·) w y)
      some s!"{showRat r.1} {showRat r.2}"
  | ["c06.loop", budget, tol, ds, exitAt] => do
      -- ds: the recorded differences; exitAt: index of the pass whose rule signalled the early exit, or N
      let ds ← parseList? parseRat? ds
      let e : Option Nat := if exitAt == "N" then none else exitAt.toNat?
      let r := runIdx (← budget.toNat?) (← parseRat? tol) (fun k => ds.getD k 0) (fun k => e == some k)
      some s!"{r.len} {reasonStr r.stop} {r.state} {optNat r.base}"
  | ["c06.brloop", maxIter, maxIter2, inner, outer] => do
      -- inner: one digit per solve (0 continue, 1 converged, 2 early exit); outer: digit w = 1 iff the outer loop stops with weights w
      let r := brIdx (← maxIter.toNat?) (← maxIter2.toNat?) (digitAt inner) (fun w => digitAt outer w == 1)
      some s!"{optNat r.1} {r.2}"
  | ["c06.jbloop", budget, stops] => do
      let r := jbIdx (← budget.toNat?) (fun k => digitAt stops k == 1)
      match r.1 with
      | some (v, sg, _, _) => some s!"{r.2.1} {reasonStr r.2.2} {v} {sg}"
      | none => some s!"{r.2.1} {reasonStr r.2.2} - -"
  | ["c06.asmjbcd", n, d, c, diag, lower, reversed] => do
      some (showMat (asmJbcd (← n.toNat?) (← d.toNat?) (← parseRat? c) (← parseRat? diag) (b lower) (b reversed)))
  | ["c06.asm2d", m, n, dr, dc, lamr, lamc, w] => do
      some (showMat (asm2dRows (← m.toNat?) (← n.toNat?) (← dr.toNat?) (← dc.toNat?) (← parseRat? lamr) (← parseRat? lamc) (← parseList? parseRat? w)))
  | _ => none

end PbVerif.Drv.C06
