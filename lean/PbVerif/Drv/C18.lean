import PbVerif.Model.Proto
import PbVerif.Model.Pad
namespace PbVerif.Drv.C18
open PbVerif PbVerif.Proto PbVerif.Pad

def parseMat? (s : String) : Option (List (List Rat)) :=
  if s = "-" then some [] else (s.splitOn ";").mapM (parseList? parseRat?)
def showMat (m : List (List Rat)) : String :=
  if m.isEmpty then "-" else ";".intercalate (m.map showRats)

def handle : List String → Option String
  | ["c18.pad", pad, wl, wr, ys] => do
      some (showRats (padEdges (← parseList? parseRat? ys) (← pad.toNat?) (← wl.toNat?) (← wr.toNat?)))
  | ["c18.pad2d", pr, pc, wt, wb, wl, wr, m] => do
      some (showMat (extrapolate2d (← parseMat? m) (← pr.toNat?) (← pc.toNat?) (← wt.toNat?) (← wb.toNat?) (← wl.toNat?) (← wr.toNat?)))
  | ["c18.pad2dspec", pad, win, m] => do
      let w ← if win = "none" then some none else (parseList? parseInt? win).map some
      match padEdges2dExtrap (← parseMat? m) (← parseList? parseInt? pad) w with
      | .ok out => some ("ok " ++ showMat out)
      | .notImplemented => some "NotImplementedError"
      | .valueError => some "ValueError"
  | ["c18.planar", a, b, c, mm, nn, pr, pc, wt, wb, wl, wr] => do
      some (showMat (planarClamped (← parseRat? a) (← parseRat? b) (← parseRat? c) (← mm.toNat?) (← nn.toNat?)
        (← pr.toNat?) (← pc.toNat?) (← wt.toNat?) (← wb.toNat?) (← wl.toNat?) (← wr.toNat?)))
  | ["c18.conv", p, padded, kernel] => do
      some (showRats (paddedConvolveCore (← parseList? parseRat? padded) (← parseList? parseRat? kernel) (← p.toNat?)))
  | ["c18.convpad", n, k] => do some (toString (convPadding (← n.toNat?) (← k.toNat?)))
  | ["c18.optwin", inc, maxHits, minHw, maxHw, hits] => do
      let hs := hits.toList.map (· == '1')
      some (toString (optimizeWindow (fun h => hs.getD h false) (← inc.toNat?) (← maxHits.toNat?) (← minHw.toNat?) (← maxHw.toNat?)))
  | _ => none

end PbVerif.Drv.C18
