import PbVerif.Model.Proto
import PbVerif.Model.Weighting
import PbVerif.Model.WExpr
import PbVerif.Gen.WeightExprs
namespace PbVerif.Drv.C09
open PbVerif PbVerif.Proto PbVerif.Weighting PbVerif.WExpr

def fbits? (s : String) : Option Float := s.toNat?.map fun n => Float.ofBits (UInt64.ofNat n)
def flist? (s : String) : Option (List Float) := if s = "-" then some [] else (s.splitOn ",").mapM fbits?
def showF (l : List Float) : String := if l.isEmpty then "-" else ",".intercalate (l.map fun f => toString f.toBits.toNat)
def out (r : RuleOut) : String := s!"{if r.exitEarly then 1 else 0}|{showF r.w}"

/-- `name=value;name=value` (or `-`) -/
def assoc? {β : Type} (val : String → Option β) (s : String) : Option (List (String × β)) :=
  if s = "-" then some [] else (s.splitOn ";").mapM fun kv =>
    match kv.splitOn "=" with
    | [k, v] => (val v).map fun b => (k, b)
    | _ => none

def handle : List String → Option String
  /- `c09.wexpr <rule> <scalars name=bits;…> <integers name=n;…> <per-point name=bits,bits,…;…> <residual bits,…>`: the expression
     translated from the source of `_weighting._<rule>` on this run, evaluated in `Float` at every point -/
  | ["c09.wexpr", rule, sc, ns, pv, r] => do
      let e ← (Gen.Src.table.find? (·.1 == rule)).map (·.2)
      some (showF (← evalFloatVec e (← assoc? fbits? sc) (← assoc? String.toNat? ns) (← assoc? flist? pv) (← flist? r)))
  | ["c09.asls", p, r] => do some (out (ruleAsls (← fbits? p) (← flist? r)))
  | ["c09.arpls", r] => do some (out (ruleArpls (← flist? r)))
  | ["c09.drpls", it, r] => do some (out (ruleDrpls (← it.toNat?) (← flist? r)))
  | ["c09.lsrpls", it, r] => do some (out (ruleLsrpls (← it.toNat?) (← flist? r)))
  | ["c09.iarpls", it, r] => do some (out (ruleIarpls (← it.toNat?) (← flist? r)))
  | ["c09.aspls", k, r] => do some (out (ruleAspls (← fbits? k) (← flist? r)))
  | ["c09.airpls", it, norm, M, r] => do some (out (ruleAirpls (← it.toNat?) (norm == "1") (← fbits? M) (← flist? r)))
  | ["c09.psalsa", p, k, r] => do some (out (rulePsalsa (← fbits? p) (← fbits? k) (← flist? r)))
  | ["c09.derpsalsa", p, k, pw, r] => do some (out (ruleDerpsalsa (← fbits? p) (← fbits? k) (← flist? pw) (← flist? r)))
  | ["c09.quantile", q, eps, r] => do some (out (ruleQuantile (← fbits? q) (← fbits? eps) (← flist? r)))
  | ["c09.brpls", m, us, es] => do
      let m ← fbits? m
      let us ← flist? us
      let es ← flist? es
      some (showF ((us.zip es).map fun (p : Float × Float) => brplsW m p.1 p.2))
  | _ => none

end PbVerif.Drv.C09
