import PbVerif.Model.Proto
import PbVerif.Model.Weighting
namespace PbVerif.Drv.C09
open PbVerif PbVerif.Proto PbVerif.Weighting

def fbits? (s : String) : Option Float := s.toNat?.map fun n => Float.ofBits (UInt64.ofNat n)
def flist? (s : String) : Option (List Float) := if s = "-" then some [] else (s.splitOn ",").mapM fbits?
def showF (l : List Float) : String := if l.isEmpty then "-" else ",".intercalate (l.map fun f => toString f.toBits.toNat)
def out (r : RuleOut) : String := s!"{if r.exitEarly then 1 else 0}|{showF r.w}"

def handle : List String → Option String
  | ["c09.asls", p, r] => do some (out (ruleAsls (← fbits? p) (← flist? r)))
  | ["c09.arpls", r] => do some (out (ruleArpls (← flist? r)))
  | ["c09.drpls", it, r] => do some (out (ruleDrpls (← it.toNat?) (← flist? r)))
  | ["c09.lsrpls", it, r] => do some (out (ruleLsrpls (← it.toNat?) (← flist? r)))
  | ["c09.iarpls", it, r] => do some (out (ruleIarpls (← it.toNat?) (← flist? r)))
  | ["c09.aspls", k, r] => do some (out (ruleAspls (← fbits? k) (← flist? r)))
  | ["c09.airpls", it, norm, M, r] => do some (out (ruleAirpls (← it.toNat?) (norm == "1") (← fbits? M) (← flist? r)))
  | ["c09.psalsa", p, k, r] => do some (out (rulePsalsa (← fbits? p) (← fbits? k) (← flist? r)))
  | ["c09.derpsalsa", p, k, pw, r] => do some (out (ruleDerpsalsa (← fbits? p) (← fbits? k) (← flist? pw) (← flist? r)))
  | ["c09.quantile", q, eps, r] => do some (out (ruleQuantile (← fbits? q) (← fbits? eps) (← flist? r)))
  | ["c09.brpls", m, us, es] => do
      let m ← fbits? m
      let us ← flist? us
      let es ← flist? es
      some (showF ((us.zip es).map fun (p : Float × Float) => brplsW m p.1 p.2))
  | _ => none

end PbVerif.Drv.C09
