import PbVerif.Model.Proto
import PbVerif.Model.Morph
namespace PbVerif.Drv.C14
open PbVerif PbVerif.Proto PbVerif.Morph

def parseMat? (s : String) : Option (List (List Rat)) :=
  if s = "-" then some [] else (s.splitOn ";").mapM (parseList? parseRat?)
def showMat (m : List (List Rat)) : String :=
  if m.isEmpty then "-" else ";".intercalate (m.map showRats)

def handle : List String → Option String
  | ["c14.erode", h, d] => do some (showRats (erode (← h.toNat?) (← parseList? parseRat? d)))
  | ["c14.dilate", h, d] => do some (showRats (dilate (← h.toNat?) (← parseList? parseRat? d)))
  | ["c14.tophat", h, d] => do some (showRats (tophat (← h.toNat?) (← parseList? parseRat? d)))
  | ["c14.mor", h, d] => do some (showRats (mor (← h.toNat?) (← parseList? parseRat? d)))
  | ["c14.imor", h, k, d] => do some (showRats (imorIter (← h.toNat?) (← parseList? parseRat? d) (← k.toNat?)))
  | ["c14.erode2d", hr, hc, m] => do some (showMat (erode2d (← hr.toNat?) (← hc.toNat?) (← parseMat? m)))
  | ["c14.dilate2d", hr, hc, m] => do some (showMat (dilate2d (← hr.toNat?) (← hc.toNat?) (← parseMat? m)))
  | ["c14.avgopening2d", hr, hc, m] => do some (showMat (avgOpening2d (← hr.toNat?) (← hc.toNat?) (← parseMat? m)))
  | ["c14.transpose", m] => do some (showMat (transpose (← parseMat? m)))
  | ["c14.tophat2d", hr, hc, m] => do some (showMat (opening2d (← hr.toNat?) (← hc.toNat?) (← parseMat? m)))
  | ["c14.mor2d", hr, hc, m] => do some (showMat (mor2d (← hr.toNat?) (← hc.toNat?) (← parseMat? m)))
  | ["c14.imor2d", hr, hc, k, m] => do
      some (showMat (imorIter2d (← hr.toNat?) (← hc.toNat?) (← parseMat? m) (← k.toNat?)))
  | ["c14.snip", order, hl, hr, dec, d] => do
      some (showRats (snipCore (← order.toNat?) (← hl.toNat?) (← hr.toNat?) (dec == "1") (← parseList? parseRat? d)))
  | ["c14.hull", xs, ys, mask] => do
      let xs ← parseList? parseRat? xs
      let ys ← parseList? parseRat? ys
      let mask ← parseList? parseNat? mask
      some (if isLowerHull (xs.zip ys) (mask.map (· != 0)) then "1" else "0")
  | ["c14.hullinterp", xs, ys, mask] => do
      let xs ← parseList? parseRat? xs
      let ys ← parseList? parseRat? ys
      let mask ← parseList? parseNat? mask
      some (showRats (hullInterp (xs.zip ys) (mask.map (· != 0))))
  | ["c14.hullshift", c, xs, ys, mask] => do
      let c ← parseRat? c
      let xs ← parseList? parseRat? xs
      let ys ← parseList? parseRat? ys
      let mask ← parseList? parseNat? mask
      let pts := shiftPts c (xs.zip ys)
      some ((if isLowerHull pts (mask.map (· != 0)) then "1" else "0") ++ " " ++ showRats (hullInterp pts (mask.map (· != 0))))
  | _ => none

end PbVerif.Drv.C14
