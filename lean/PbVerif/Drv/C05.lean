import PbVerif.Model.Proto
import PbVerif.Model.Kernels
namespace PbVerif.Drv.C05
open PbVerif PbVerif.Proto PbVerif.Kernels

def handle : List String → Option String
  | ["c05.dirmin", dataLen, hw] => do some (showInts (dirMinMovAvgIdx (← dataLen.toNat?) (← hw.toNat?)))
  | ["c05.rstd", numY, hw] => do
      let n ← numY.toNat?
      let h ← hw.toNat?
      some s!"{showInts (rollingStdDataIdx n h)}|{showInts (rollingStdSqIdx n h)}"
  | _ => none

end PbVerif.Drv.C05
