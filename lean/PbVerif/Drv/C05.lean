import PbVerif.Model.Proto
import PbVerif.Model.Kernels
import PbVerif.Model.Kernels2
import PbVerif.Model.BSpline
namespace PbVerif.Drv.C05
open PbVerif PbVerif.Proto PbVerif.Kernels

def showAcc (t : BandAcc) : String := s!"{t.ra}:{t.ca}:{t.rb}:{t.cb}:{t.rc}:{t.cc}"

def showEv : Ev → String
  | .ix p => s!"i{p}"
  | .x i => s!"x{i}"
  | .y i => s!"y{i}"
  | .xs lo hi => s!"s{lo}:{hi}"
  | .os lo hi => s!"o{lo}:{hi}"
  | .am lo hi => s!"s{lo}:{hi}"

def bit (b : Bool) : String := if b then "1" else "0"

def parseBits (s : String) : List Bool := if s = "-" then [] else s.toList.map (· == '1')

def handle : List String → Option String
  | ["c05.dirmin", dataLen, hw] => do some (showInts (dirMinMovAvgIdx (← dataLen.toNat?) (← hw.toNat?)))
  | ["c05.rstd", numY, hw] => do
      let n ← numY.toNat?
      let h ← hw.toNat?
      some s!"{showInts (rollingStdDataIdx n h)}|{showInts (rollingStdSqIdx n h)}"
  | ["c05.banddot", al, au, bl, bu, cu, n, lb] => do
      some (showList showAcc (bandDotIdx (← al.toNat?) (← au.toNat?) (← bl.toNat?) (← bu.toNat?) (← cu.toInt?) (← n.toNat?) (← lb.toNat?)))
  | ["c05.bandpre", rA, cA, rB, cB, rC, cC, al, au, bl, bu, cu, n, lb] => do
      some (bit (decide (BandPre (← rA.toNat?) (← cA.toNat?) (← rB.toNat?) (← cB.toNat?) (← rC.toNat?) (← cC.toNat?)
        (← al.toNat?) (← au.toNat?) (← bl.toNat?) (← bu.toNat?) (← cu.toInt?) (← n.toNat?) (← lb.toNat?))))
  | ["c05.bdbargs", al, au, bl, bu, fa, fb, sym] => do
      let al ← al.toNat?; let au ← au.toNat?; let bl ← bl.toNat?; let bu ← bu.toNat?
      let fa ← fa.toInt?; let fb ← fb.toInt?
      let r := bdbArgs al au bl bu fa fb (sym == "1")
      some s!"{r.1} {r.2.1} {r.2.2} {bdbRows al au bl bu fa fb}"
  | ["c05.bezier", n, ny, ix, am, eq] => do
      let n ← n.toNat?; let ny ← ny.toNat?
      let ix ← parseList? parseInt? ix
      let am ← parseList? parseNat? am
      let eq := parseBits eq
      let tr := bezierTrace n ny ix (fun k => am.getD k 0) (fun j => eq.getD j false)
      some s!"{bit (bezPreB n ix)}|{bit (tr.all fun e => decide (e.Ok n ny ix.length))}|{showList showEv tr}"
  | ["c05.peaksegs", bits] =>
      let m := parseBits bits
      some s!"{showInts (adjStarts (peakSegs true 0 m).1)}|{showInts (adjEnds m.length (peakSegs true 0 m).2)}"
  | ["c05.qbez"] => some (showInts quadBezierIdx)
  | ["c05.flatnonzero", bits] => some (showInts (flatnonzero (parseBits bits)))
  | ["c05.interp", nx, ny] => do
      let nx ← nx.toNat?; let ny ← ny.toNat?
      some s!"{showInts interpScalarIdx}|{(interpSliceLens nx ny).1}|{(interpSliceLens nx ny).2}"
  | ["c05.fillskips", nx, nb, l, r] => do
      let c := fillSkipsCall (← nx.toNat?) (← nb.toNat?) (← l.toInt?) (← r.toInt?)
      some s!"{showInts c.1}|{c.2.1}|{c.2.2}"
  | ["c05.lsolve", m, w, wb] => do
      match loessSolverShape (← m.toNat?) (← w.toNat?) (← wb.toNat?) with
      | some k => some (toString k)
      | none => some "shape"
  | ["c05.loessiter", n, po, tp, cached, i, l, r] => do
      let it := loessIter (← n.toNat?) (← po.toNat?) (← tp.toNat?) (cached == "1") (← i.toInt?) (← l.toInt?) (← r.toInt?)
      let sv := match it.solver with | some k => toString k | none => "shape"
      some s!"{it.wlen}|{it.rowIdx}|{showInts it.diffIdx}|{it.kernelLen}|{sv}"
  | ["c05.loessguards", n, tp, po] => do some (bit (loessGuards (← n.toNat?) (← tp.toInt?) (← po.toInt?)))
  | ["c05.peakargs", sec, lp, rp, hw] => do
      let r := peakFillingArgs (← sec.toInt?) (← lp.toNat?) (← rp.toNat?) (← hw.toInt?)
      some s!"{r.1} {r.2.1} {r.2.2}"
  | ["c05.padlen", n, hw] => do
      match paddedLen (← n.toNat?) (← hw.toInt?) with
      | some l => some (toString l)
      | none => some "none"
  | ["c05.splinepre", nk, deg] => do
      let nk ← nk.toNat?; let deg ← deg.toNat?
      let len := (BSpline.splineKnots 0 1 nk deg).length
      some s!"{len} {len - (deg + 1)}"
  | _ => none

end PbVerif.Drv.C05
