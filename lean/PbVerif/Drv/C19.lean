import PbVerif.Model.Proto
import PbVerif.Model.Loess
import PbVerif.Model.LoessKern
namespace PbVerif.Drv.C19
open PbVerif PbVerif.Proto PbVerif.Loess PbVerif.LoessKern

def parsePair? (s : String) : Option (Nat × Nat) :=
  match s.splitOn "," with
  | [a, b] => do some ((← a.toNat?), (← b.toNat?))
  | _ => none

def fbits? (s : String) : Option Float := s.toNat?.map fun n => Float.ofBits (UInt64.ofNat n)
def showF (l : List Float) : String := if l.isEmpty then "-" else ",".intercalate (l.map fun f => toString f.toBits.toNat)

def parsePairs? (s : String) : Option (List (Nat × Nat)) :=
  if s = "-" then some [] else (s.splitOn ";").mapM parsePair?

/-- `;`-separated rows of `,`-separated rationals -/
def parseRows? (s : String) : Option (List (List Rat)) :=
  if s = "-" then some [] else (s.splitOn ";").mapM (parseList? parseRat?)

def showRows (rows : List (List Rat)) : String :=
  if rows.isEmpty then "-" else ";".intercalate (rows.map fun r => if r.isEmpty then "x" else showRats r)

def showOpt (l : List (Option Rat)) : String :=
  if l.isEmpty then "-" else ",".intercalate (l.map fun | none => "n" | some v => showRat v)

def showOut (r : Out Rat) : String := s!"{showOpt r.baseline}|{showRows r.coefs}"

/-- the driver's rational instance: square roots to 2⁻¹²⁸, exact solve -/
def qNum : Num Rat := ratNum (sqrtApprox 128)

def handle : List String → Option String
  -- the kernel vectors of every (fit, window) pair in IEEE doubles (bit patterns in and out)
  | ["c19.kernf", fits, wins, xs] => do
      let xs ← parseList? fbits? xs
      let fits ← parseList? String.toNat? fits
      let wins ← parsePairs? wins
      some (";".intercalate ((fits.zip wins).map fun p => showF (kernelOf floatNum xs p.1 p.2.1 p.2.2)))
  -- two iterations of both strategies in exact rationals:
  --   pass 1 on (y1, w1) with zero coefs, pass 2 on (y2, w2) with the coefs left by pass 1
  | ["c19.loops", po, fits, wins, xs, vander, y1, w1, y2, w2] => do
      let po ← po.toNat?
      let fits ← parseList? String.toNat? fits
      let wins ← parsePairs? wins
      let xs ← parseList? parseRat? xs
      let vander ← parseRows? vander
      let y1 ← parseList? parseRat? y1
      let w1 ← parseList? parseRat? w1
      let y2 ← parseList? parseRat? y2
      let w2 ← parseList? parseRat? w2
      let n := xs.length
      let z := List.replicate n (List.replicate (po + 1) (0 : Rat))
      let f1 := firstLoop qNum solveExact xs y1 w1 z vander n wins fits (List.replicate n [])
      let l1 := lowMemory qNum solveExact xs y1 w1 z vander n wins fits
      let n2 := nonfirstLoops qNum solveExact y2 w2 f1.2.coefs vander f1.1 wins n fits
      let l2 := lowMemory qNum solveExact xs y2 w2 l1.coefs vander n wins fits
      let eq1 := if f1.2 = l1 then "1" else "0"
      let eq2 := if n2 = l2 then "1" else "0"
      some s!"{eq1}{eq2}|{showRows f1.1}|{showOut l1}|{showOut l2}"
  | ["c19.fits", tp, delta, xs] => do
      let xs ← parseList? parseRat? xs
      let r := determineFitsX xs (← tp.toNat?) (← parseRat? delta)
      let ws := if r.1.isEmpty then "-" else ";".intercalate (r.1.map fun (a, b) => s!"{a},{b}")
      let ss := if r.2.2.isEmpty then "-" else ";".intercalate (r.2.2.map fun (a, b) => s!"{a},{b}")
      some s!"{ws}|{showNats r.2.1}|{ss}"
  | ["c19.fill", xs, bs, skips] => do
      let xs ← parseList? parseRat? xs
      let bs ← parseList? parseRat? bs
      let sk ← if skips = "-" then some [] else (skips.splitOn ";").mapM parsePair?
      some (showRats (fillSkips xs bs sk))
  | _ => none

end PbVerif.Drv.C19
