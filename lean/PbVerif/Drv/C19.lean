import PbVerif.Model.Proto
import PbVerif.Model.Loess
namespace PbVerif.Drv.C19
open PbVerif PbVerif.Proto PbVerif.Loess

def parsePair? (s : String) : Option (Nat × Nat) :=
  match s.splitOn "," with
  | [a, b] => do some ((← a.toNat?), (← b.toNat?))
  | _ => none

def handle : List String → Option String
  | ["c19.fits", tp, delta, xs] => do
      let xs ← parseList? parseRat? xs
      let r := determineFitsX xs (← tp.toNat?) (← parseRat? delta)
      let ws := if r.1.isEmpty then "-" else ";".intercalate (r.1.map fun (a, b) => s!"{a},{b}")
      let ss := if r.2.2.isEmpty then "-" else ";".intercalate (r.2.2.map fun (a, b) => s!"{a},{b}")
      some s!"{ws}|{showNats r.2.1}|{ss}"
  | ["c19.fill", xs, bs, skips] => do
      let xs ← parseList? parseRat? xs
      let bs ← parseList? parseRat? bs
      let sk ← if skips = "-" then some [] else (skips.splitOn ";").mapM parsePair?
      some (showRats (fillSkips xs bs sk))
  | _ => none

end PbVerif.Drv.C19
