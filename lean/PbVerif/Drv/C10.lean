import PbVerif.Model.Proto
import PbVerif.Model.Backend
import PbVerif.Model.BandMul
namespace PbVerif.Drv.C10
open PbVerif PbVerif.Proto PbVerif.Backend PbVerif.Banded PbVerif.Whittaker

def kindOf? : String → Option Kind
  | "std" => some .std | "iasls" => some .iasls | "aspls" => some .aspls | "drpls" => some .drpls | _ => none

def showRoute : Route → String
  | .pentapy v => s!"pentapy{v}" | .solveh => "solveh" | .solveBanded => "solve_banded"

def handle : List String → Option String
  | ["c10.route", kind, solver, hasPentapy, d] => do
      let k ← kindOf? kind
      let solver ← solver.toNat?
      let s := setup 9 (hasPentapy == "1") solver (← d.toNat?) (methodFlags k).1 (methodFlags k).2
      some s!"{showRoute (route s solver)} {if s.lower then 1 else 0} {if s.reversed then 1 else 0}"
  | ["c10.rowwise", u, n, ab] => do
      let u ← u.toNat?
      let n ← n.toNat?
      let ab ← (ab.splitOn ";").mapM (parseList? parseRat?)
      some (";".intercalate ((List.range n).map fun (i : Nat) => showRats ((List.range n).map fun (j : Nat) => denRowwise ab u i j)))
  | ["c10.bandmul", al, au, bl, bu, n, a, b] => do
      let pm := fun (t : String) => (t.splitOn ";").mapM (parseList? parseRat?)
      let c := BandMul.bandedDotBanded (← pm a) (← pm b) (← al.toNat?) (← au.toNat?) (← bl.toNat?) (← bu.toNat?) (← n.toNat?)
      some (";".intercalate (c.map showRats))
  | _ => none

end PbVerif.Drv.C10
