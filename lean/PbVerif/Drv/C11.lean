import PbVerif.Model.Proto
import PbVerif.Model.Banded
import PbVerif.Gen.Diags
namespace PbVerif.Drv.C11
open PbVerif PbVerif.Proto PbVerif.Banded

def showRows (m : List (List Int)) : String :=
  if m.isEmpty then "-" else ";".intercalate (m.map showInts)

def parseBool? : String → Option Bool
  | "1" => some true | "0" => some false | _ => none

def parseCfg? (s : String) : Option Cfg :=
  match s.splitOn "," with
  | [d, al, rev, ap, pad] => do
      let d ← d.toNat?
      let al ← parseBool? al
      let rev ← match rev with | "N" => some none | "T" => some (some true) | "F" => some (some false) | _ => none
      let ap ← parseBool? ap
      let pad ← pad.toInt?
      some ⟨d, al, rev, ap, pad⟩
  | _ => none

def table? : Nat → Option DiagTable
  | 1 => some Gen.diff1 | 2 => some Gen.diff2 | 3 => some Gen.diff3 | _ => none

def handle : List String → Option String
  | ["c11.table", d, lo, n] => do
      let t ← table? (← d.toNat?)
      some (showRows (t.toRows (← parseBool? lo) (← n.toNat?)))
  | ["c11.spec", d, lo, n, pad] => do
      let lo ← parseBool? lo
      let n ← n.toNat?
      some (showRows (padDiagonals (specRows n (← d.toNat?) lo) (← pad.toInt?) lo n))
  | ["c11.dtd", n, d] => do
      let n ← n.toNat?
      let d ← d.toNat?
      some (showRows ((List.range n).map fun i => (List.range n).map fun j => DtD n d i j))
  | ["c11.dmat", n, d] => do
      let n ← n.toNat?
      let d ← d.toNat?
      some (showRows ((List.range (n - d)).map fun k => (List.range n).map fun j => Dent d k j))
  | ["c11.coef", d] => do some (showInts (diffCoefCode (← d.toNat?)))
  | ["c11.hist", n, hp, cfgs] => do
      let n ← n.toNat?
      let hp ← parseBool? hp
      let cs ← (cfgs.splitOn "|").mapM parseCfg?
      let s := cs.foldl reset (initSys n hp)
      let b := fun (x : Bool) => if x then "1" else "0"
      some s!"{showRows (s.orig.getD [])} {b s.lower} {b s.reversed} {b s.usingPentapy} {s.diffOrder} {showRows s.penalty}"
  | _ => none

end PbVerif.Drv.C11
