import PbVerif.Model.Proto
import PbVerif.Model.Own
namespace PbVerif.Drv.C13
open PbVerif PbVerif.Own

def b (s : String) : Bool := s == "1"

def handle : List String → Option String
  | ["c13.alias", isNd, dtOk, nr, rv, srt, cp] =>
      some (if aliasesUser ⟨b isNd, b dtOk, b nr, b rv, b srt⟩ (b cp) then "1" else "0")
  | _ => none

end PbVerif.Drv.C13
