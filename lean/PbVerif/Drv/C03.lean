import PbVerif.Model.Proto
import PbVerif.Model.Cache
namespace PbVerif.Drv.C03
open PbVerif PbVerif.Proto PbVerif.Cache

def b? : String → Option Bool | "1" => some true | "0" => some false | _ => none
def optNat? (s : String) : Option (Option Nat) := if s = "N" then some none else s.toNat?.map some

def parseOp? (s : String) : Option Op :=
  match s.splitOn ":" with
  | ["s", v, isb] => do some (.setSolver (← v.toNat?) (← b? isb))
  | "c" :: len :: uq :: rest => do
      let len ← len.toNat?
      let uq ← b? uq
      let kind ← match rest with
        | ["plain"] => some Kind.plain
        | ["fail"] => some Kind.failsInside
        | ["polynv"] => some Kind.polyNoVander
        | ["poly", k, w, p] => do some (Kind.poly (← k.toNat?) (← b? w) (← b? p))
        | ["poly2", a, b, mc, w, p] => do some (Kind.poly2 (← a.toNat?) (← b.toNat?) (← optNat? mc) (← b? w) (← b? p))
        | ["spline", kn, dg, fa] => do some (Kind.spline (← kn.toNat?) (← dg.toNat?) (← b? fa))
        | _ => none
      some (.call ⟨len, uq, kind⟩)
  | _ => none

def sb (x : Bool) : String := if x then "1" else "0"
def son (o : Option Nat) : String := match o with | none => "N" | some n => toString n
def skey (k : (Nat × Nat) × Option Nat) : String := s!"{k.1.1},{k.1.2},{son k.2}"

def showUsed : Used → String
  | .none => "none"
  | .poly c p => s!"poly:{c}:{son p}"
  | .poly2 k p => s!"poly2:{skey k}:{match p with | none => "N" | some k => skey k}"
  | .spline k => s!"spline:{k.1},{k.2}"

def showOutcome : Outcome → String
  | .ok u => "ok:" ++ showUsed u
  | .lenMismatch => "len"
  | .nonUniqueX => "nonuniq"
  | .failed => "failed"
  | .badSolver => "badsolver"
  | .solverSet => "solverset"

def showSt (s : St) : String :=
  let p := match s.poly with
    | none => "N"
    | some p => s!"{p.order},{p.cols},{sb p.stale},{son p.pinvCols},{sb (p.stale || p.pinvCols == some p.cols)}"
  let p2 := match s.poly2 with
    | none => "N"
    | some p => s!"{p.orders.1},{p.orders.2},{son p.maxCross},{sb p.stale},{match p.pinvKey with | none => "N" | some _ => "S"},{sb (p.vKey == (p.orders, p.maxCross))},{sb (p.stale || p.pinvKey == some p.vKey)}"
  let sp := match s.spline with | none => "N" | some k => s!"{k.1},{k.2}"
  s!"{son s.size}/{sb s.validated}/{p}/{p2}/{sp}/{s.solver}/{s.pentapySolver}"

def handle : List String → Option String
  | ["c03.hist", twoD, given, ops] => do
      let twoD ← b? twoD
      let given ← if given = "N" then some none else
        match given.splitOn "," with
        | [n, u] => do some (some ((← n.toNat?), (← b? u)))
        | _ => none
      let ops ← if ops = "-" then some [] else (ops.splitOn ";").mapM parseOp?
      let (_, outs) := ops.foldl (fun (acc : St × List String) o =>
        let (s', out) := step acc.1 o
        (s', acc.2 ++ [showOutcome out ++ "|" ++ showSt s'])) (init twoD given, [])
      some (if outs.isEmpty then "-" else ";".intercalate outs)
  | _ => none

end PbVerif.Drv.C03
