import PbVerif.Model.Proto
import PbVerif.Model.LoopTbl
import PbVerif.Gen.Loops
/-! driver ops of C01 / C09 for the translated loop table (`Gen/Loops.lean`): the rows are looked up in the SAME generated table the
theorems of Props/C01 / Props/C09 are proved about.

  c01.tblrow  <func>                                   the row as the Lean side sees it (cross-checked against the translator's parse)
  c01.tblrun  <func> <max_iter> <tol> <ds> <flags>     run a single-loop row: ds = recorded values per step, flags = k:p,… (set flags)
  c01.nestrun <func> <max_iter> <max_iter_2> <tol> <D> <FL> <OFL>   run a two-level row: D = a0k0,a0k1;a1k0,… ; FL = a:k:p,… ; OFL = a:p,… -/
namespace PbVerif.Drv.C01
open PbVerif PbVerif.Proto PbVerif.LoopTbl PbVerif.Loop

def showTest : Test → String
  | .tol => "tol" | .tolOr => "tolOr" | .tolAnd => "tolAnd" | .flag => "flag"

def showEv : Ev → String
  | .write off => s!"w{off}"
  | .brk t dec => s!"b{showTest t}{dec}"

def showNEv : NEv → String
  | .write ro co => s!"w{ro}:{co}"
  | .brk t dec => s!"b{showTest t}{dec}"

def showOEv : OEv → String
  | .inner => "inner" | .jmax => "jmax" | .brk => "brk"
  | .write row co => s!"w{row}:{co}"

def showStop : Stop → String
  | .converged => "converged" | .exhausted => "exhausted" | .early => "early"

def showB (b : Bool) : String := if b then "1" else "0"

/-- `a:b` or `a:b:c` tuples of naturals -/
def parseTuple? (s : String) : Option (List Nat) := (s.splitOn ":").mapM (·.toNat?)

def parseRows? (s : String) : Option (List (List Rat)) :=
  if s = "" || s = "-" then some [] else (s.splitOn ";").mapM (parseList? parseRat?)

def handle : List String → Option String
  | ["c01.tblrow", func] =>
      match Gen.loopTable.find? (·.func == func), Gen.nestTable.find? (·.func == func) with
      | some r, _ =>
          let shape := match r.shape with | some (b, t) => s!"{showB b}{showTest t}" | none => "none"
          some s!"single {r.key} {r.alloc.coef} {r.alloc.const} {r.cols} {showB r.zeroed} {r.guard} {r.lo} {r.hi.coef} {r.hi.const} {r.sliceOff} {r.code} {showB r.ok} {shape} {showList showEv r.body}"
      | none, some r =>
          some s!"nested {r.key} {showB r.zeroed} {r.rows} {r.colc} {r.ohi} {r.ihi} {r.jmax0} {r.srow} {r.scol} {showB (r.ok && r.distinct)} {showList showNEv r.ibody} {showList showOEv r.outer}"
      | none, none => some "missing"
  | ["c01.tblcount"] => some s!"{Gen.loopTable.length} {Gen.nestTable.length} {Gen.loopFailed.length} {showB Gen.loopsTranslated}"
  | ["c01.tblrun", func, n, tol, ds, flags] => do
      let r ← Gen.loopTable.find? (·.func == func)
      let ds ← parseList? parseRat? ds
      let fs ← parseList? parseTuple? flags
      let res := run r (← n.toNat?) (← parseRat? tol) (fun k => ds.getD k 0) (fun k p => fs.contains [k, p])
      if res.raised then some "raised"
      else some s!"{sliceLen (r.alloc.eval (← n.toNat?)) res.slice} {showStop res.stop} {res.steps} {res.slice} {showList (fun (x : Int × Nat) => s!"{x.1}@{x.2}") res.writes}"
  | ["c01.nestrun", func, m, m2, tol, dd, fls, ofls] => do
      let r ← Gen.nestTable.find? (·.func == func)
      let dd ← parseRows? dd
      let fs ← parseList? parseTuple? fls
      let os ← parseList? parseTuple? ofls
      let res := nrun r (← m.toNat?) (← m2.toNat?) (← parseRat? tol) (fun a k => (dd.getD a []).getD k 0)
        (fun a k p => fs.contains [a, k, p]) (fun a p => os.contains [a, p])
      if res.raised then some "raised"
      else some s!"{res.srow} {res.scol} {res.steps} {showList (fun (x : Int × Int) => s!"{x.1}:{x.2}") res.writes}"
  | _ => none

end PbVerif.Drv.C01
