import PbVerif.Model.Proto
import PbVerif.Model.Poly
import PbVerif.Model.Poly2d
namespace PbVerif.Drv.C08
open PbVerif PbVerif.Proto PbVerif.Poly PbVerif.Poly2d

def parseMat? (s : String) : Option (List (List Rat)) :=
  if s = "-" then some [] else (s.splitOn ";").mapM (parseList? parseRat?)
def showMat (m : List (List Rat)) : String :=
  if m.isEmpty then "-" else ";".intercalate (m.map showRats)

/-- `none` or a natural number -/
def parseMc? (s : String) : Option (Option Nat) :=
  if s = "none" then some none else s.toNat?.map some

def handle : List String → Option String
  | ["c08.mapparms", o0, o1, n0, n1] => do
      let p := mapparms (← parseRat? o0) (← parseRat? o1) (← parseRat? n0) (← parseRat? n1)
      some s!"{showRat p.1} {showRat p.2}"
  | ["c08.transform", n, offset, scale] => do
      let n ← n.toNat?
      let o ← parseRat? offset
      let s ← parseRat? scale
      some (showMat ((List.range n).map fun i => (List.range n).map fun j => polyTransformAt o s i j))
  | ["c08.convert", offset, scale, c] => do
      some (showRats (convertCoef (← parseList? parseRat? c) (← parseRat? offset) (← parseRat? scale)))
  | ["c08.evalb", c, xs] => do
      let c ← parseList? parseRat? c
      let xs ← parseList? parseRat? xs
      some (";".intercalate (xs.map fun x => let r := evalWithBound c x; s!"{showRat r.1},{showRat r.2}"))
  | ["c08.evalb2", c, xs, zs] => do
      -- values of polyval2d on the grid xs × zs with the magnitude Σ|c_ij||x|^i|z|^j
      let c ← parseMat? c
      let xs ← parseList? parseRat? xs
      let zs ← parseList? parseRat? zs
      let ab := fun (q : Rat) => if q < 0 then -q else q
      let cabs := c.map (·.map ab)
      some (";".intercalate (xs.map fun x => ",".intercalate (zs.map fun z =>
        s!"{showRat (evalPoly2 c x z)}:{showRat (evalPoly2 cabs (ab x) (ab z))}")))
  | ["c08.normal", k, a, b, xs, ws, rs] => do
      let a ← parseRat? a
      let b ← parseRat? b
      let xs ← parseList? parseRat? xs
      let ts := xs.map fun x => (2 * x - (a + b)) / (b - a)
      let r := normalResidual ts (← parseList? parseRat? ws) (← parseList? parseRat? rs) (← k.toNat?)
      some (";".intercalate (r.map fun p => s!"{showRat p.1},{showRat p.2}"))
  | ["c08.normalt", k, ts, ws, rs] => do
      let r := normalResidual (← parseList? parseRat? ts) (← parseList? parseRat? ws) (← parseList? parseRat? rs) (← k.toNat?)
      some (";".intercalate (r.map fun p => s!"{showRat p.1},{showRat p.2}"))
  | ["c08.keptcols", a, b, mc] => do
      -- one character per column of the flattened Vandermonde matrix: 1 = kept, 0 = set to zero (the transcribed loop)
      some (showBits (keptCols (← a.toNat?) (← b.toNat?) (← parseMc? mc)))
  | ["c08.allowed", a, b, mc] => do
      -- the documented monomial set as an (a+1) x (b+1) bitmap, rows separated by ';'
      some (";".intercalate ((allowedRows (← a.toNat?) (← b.toNat?) (← parseMc? mc)).map showBits))
  | ["c08.maskedrow", a, b, mc, x, z, coef] => do
      -- a row of the zeroed Vandermonde matrix, its product with coef, and polyval2d of the masked coefficient matrix
      let a ← a.toNat?
      let b ← b.toNat?
      let mc ← parseMc? mc
      let x ← parseRat? x
      let z ← parseRat? z
      let coef ← parseList? parseRat? coef
      some s!"{showRats (vanderRowMasked a b mc x z)} {showRat (dot (vanderRowMasked a b mc x z) coef)} {showRat (evalPoly2 (maskCoef mc (reshapeCoef a b coef)) x z)}"
  | _ => none

end PbVerif.Drv.C08
