import PbVerif.Model.Proto
import PbVerif.Model.Poly
namespace PbVerif.Drv.C08
open PbVerif PbVerif.Proto PbVerif.Poly

def parseMat? (s : String) : Option (List (List Rat)) :=
  if s = "-" then some [] else (s.splitOn ";").mapM (parseList? parseRat?)
def showMat (m : List (List Rat)) : String :=
  if m.isEmpty then "-" else ";".intercalate (m.map showRats)

def handle : List String → Option String
  | ["c08.mapparms", o0, o1, n0, n1] => do
      let p := mapparms (← parseRat? o0) (← parseRat? o1) (← parseRat? n0) (← parseRat? n1)
      some s!"{showRat p.1} {showRat p.2}"
  | ["c08.transform", n, offset, scale] => do
      let n ← n.toNat?
      let o ← parseRat? offset
      let s ← parseRat? scale
      some (showMat ((List.range n).map fun i => (List.range n).map fun j => polyTransformAt o s i j))
  | ["c08.convert", offset, scale, c] => do
      some (showRats (convertCoef (← parseList? parseRat? c) (← parseRat? offset) (← parseRat? scale)))
  | ["c08.evalb", c, xs] => do
      let c ← parseList? parseRat? c
      let xs ← parseList? parseRat? xs
      some (";".intercalate (xs.map fun x => let r := evalWithBound c x; s!"{showRat r.1},{showRat r.2}"))
  | ["c08.evalb2", c, xs, zs] => do
      -- values of polyval2d on the grid xs × zs with the magnitude Σ|c_ij||x|^i|z|^j
      let c ← parseMat? c
      let xs ← parseList? parseRat? xs
      let zs ← parseList? parseRat? zs
      let ab := fun (q : Rat) => if q < 0 then -q else q
      let cabs := c.map (·.map ab)
      some (";".intercalate (xs.map fun x => ",".intercalate (zs.map fun z =>
        s!"{showRat (evalPoly2 c x z)}:{showRat (evalPoly2 cabs (ab x) (ab z))}")))
  | ["c08.normal", k, a, b, xs, ws, rs] => do
      let a ← parseRat? a
      let b ← parseRat? b
      let xs ← parseList? parseRat? xs
      let ts := xs.map fun x => (2 * x - (a + b)) / (b - a)
      let r := normalResidual ts (← parseList? parseRat? ws) (← parseList? parseRat? rs) (← k.toNat?)
      some (";".intercalate (r.map fun p => s!"{showRat p.1},{showRat p.2}"))
  | ["c08.normalt", k, ts, ws, rs] => do
      let r := normalResidual (← parseList? parseRat? ts) (← parseList? parseRat? ws) (← parseList? parseRat? rs) (← k.toNat?)
      some (";".intercalate (r.map fun p => s!"{showRat p.1},{showRat p.2}"))
  | _ => none

end PbVerif.Drv.C08
