import PbVerif.Model.Proto
import PbVerif.Model.Validate
namespace PbVerif.Drv.C15
open PbVerif PbVerif.Proto PbVerif.Validate

def parseSc? (s : String) : Option Sc :=
  if s = "nan" then some .nan else if s = "pinf" then some .pinf else if s = "ninf" then some .ninf
  else if s = "none" then some .none else if s = "str" then some .str
  else (parseRat? s).map .num

def parseScs? (s : String) : Option (List Sc) := if s = "" then some [] else (s.splitOn ";").mapM parseSc?

def parseVal? (s : String) : Option Val :=
  if s.startsWith "s:" then (parseSc? (s.drop 2).toString).map .sc
  else if s.startsWith "a:" then (parseScs? (s.drop 2).toString).map .arr
  else if s.startsWith "m:" then (((s.drop 2).toString.splitOn "|").mapM parseScs?).map .nested
  else none

def showEl : El → String
  | .fin q => showRat q | .nan => "nan" | .pinf => "pinf" | .ninf => "ninf"

def showRes : Res → String
  | .ok es sc => s!"ok:{if sc then "s" else "a"}:{",".intercalate (es.map showEl)}"
  | .valueError => "ValueError" | .typeError => "TypeError" | .overflowError => "OverflowError"

def b? : String → Option Bool | "1" => some true | "0" => some false | _ => none

def showA : ARes → String
  | .ok sh => "ok:" ++ showNats sh | .valueError => "ValueError" | .typeError => "TypeError"

def handle : List String → Option String
  | ["c15.lam", v, az, td] => do some (showRes (checkLam (← parseVal? v) (← b? az) (← b? td)))
  | ["c15.hw", v, az, td] => do some (showRes (checkHalfWindow (← parseVal? v) (← b? az) (← b? td)))
  | ["c15.sv", v, az, td, di] => do some (showRes (checkScalarVariable (← parseVal? v) (← b? az) (← b? td) (← b? di)))
  | ["c15.arr", shape, nf, cf, e1, e2, td] => do
      some (showA (checkArray (← parseList? parseNat? shape) (← b? nf) (← b? cf) (← b? e1) (← b? e2) (← b? td)))
  | ["c15.sized", shape, nf, cf, len] => do
      some (showA (checkSized (← parseList? parseNat? shape) (← b? nf) (← b? cf) (← len.toNat?)))
  | ["c15.solver", isb, v] => do some (if solverAccepted (← b? isb) (← parseRat? v) then "ok" else "ValueError")
  | _ => none

end PbVerif.Drv.C15
