import PbVerif.Model.Proto
import PbVerif.Model.Perm
namespace PbVerif.Drv.C02
open PbVerif PbVerif.Proto PbVerif.Perm

def parseMat? (s : String) : Option (List (List Rat)) :=
  if s = "-" then some [] else (s.splitOn ";").mapM (parseList? parseRat?)
def showMat (m : List (List Rat)) : String :=
  if m.isEmpty then "-" else ";".intercalate (m.map showRats)

def handle : List String → Option String
  | ["c02.sorts", x] => do
      let x ← parseList? parseRat? x
      match determineSorts x with
      | none => some "none"
      | some (σ, inv) => some s!"{showNats σ}|{showNats inv}"
  | ["c02.sort", x, a] => do
      let x ← parseList? parseRat? x
      let a ← parseList? parseRat? a
      some (showRats (sortArray a 0 ((determineSorts x).map (·.1))))
  | ["c02.unsort", x, a] => do
      let x ← parseList? parseRat? x
      let a ← parseList? parseRat? a
      some (showRats (sortArray a 0 ((determineSorts x).map (·.2))))
  | ["c02.sort2d", x, z, a] => do
      let x ← parseList? parseRat? x
      let z ← parseList? parseRat? z
      let a ← parseMat? a
      some (showMat (sort2d a ((determineSorts x).map (·.1)) ((determineSorts z).map (·.1))))
  | ["c02.unsort2d", x, z, a] => do
      let x ← parseList? parseRat? x
      let z ← parseList? parseRat? z
      let a ← parseMat? a
      some (showMat (sort2d a ((determineSorts x).map (·.2)) ((determineSorts z).map (·.2))))
  | ["c02.extend", s, side, k] => do
      let s ← parseList? parseNat? s
      let side ← side.toNat?
      let k ← k.toNat?
      some (showNats (extendSortOrder s side k))
  | _ => none

end PbVerif.Drv.C02
