import PbVerif.Model.Proto
import PbVerif.Model.Kron
namespace PbVerif.Drv.C20
open PbVerif PbVerif.Proto PbVerif.Kron

def parseMat? (s : String) : Option (List (List Rat)) :=
  if s = "-" then some [] else (s.splitOn ";").mapM (parseList? parseRat?)
def showMat (m : List (List Rat)) : String :=
  if m.isEmpty then "-" else ";".intercalate (m.map showRats)

def handle : List String → Option String
  | ["c20.btwb", br, bc, w] => do
      let Br ← parseMat? br
      let Bc ← parseMat? bc
      let W ← parseMat? w
      let k := Mat.ncols Br * Mat.ncols Bc
      some (showMat ((List.range k).map fun r => (List.range k).map fun c => makeBtwb Br Bc W r c))
  | ["c20.rhs", br, bc, wy] => do
      let Br ← parseMat? br
      let Bc ← parseMat? bc
      let WY ← parseMat? wy
      some (showRats ((List.range (Mat.ncols Br * Mat.ncols Bc)).map fun r => rhsCode Br Bc WY r))
  | ["c20.recon", br, bc, coef] => do
      let Br ← parseMat? br
      let Bc ← parseMat? bc
      let c ← parseList? parseRat? coef
      some (showMat ((List.range Br.length).map fun m => (List.range Bc.length).map fun n => reconstruct Br Bc c m n))
  | ["c20.pen", lamr, lamc, er, ec] => do
      let er ← parseList? parseRat? er
      let ec ← parseList? parseRat? ec
      let lr ← parseRat? lamr
      let lc ← parseRat? lamc
      some (showRats ((List.range (er.length * ec.length)).map fun r => eigPenalty lr lc er ec r))
  | _ => none

end PbVerif.Drv.C20
