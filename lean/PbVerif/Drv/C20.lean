import PbVerif.Model.Proto
import PbVerif.Model.Kron
import PbVerif.Model.Axes
import PbVerif.Model.Perm
import PbVerif.Model.Morph
namespace PbVerif.Drv.C20
open PbVerif PbVerif.Proto PbVerif.Kron

def parseMat? (s : String) : Option (List (List Rat)) :=
  if s = "-" then some [] else (s.splitOn ";").mapM (parseList? parseRat?)
def showMat (m : List (List Rat)) : String :=
  if m.isEmpty then "-" else ";".intercalate (m.map showRats)

/-! individual_axes -/
def axesArg? (s : String) : Option Axes.AxesArg :=
  match s.splitOn "," with
  | [a] => do some (.one (← a.toNat?))
  | [a, b] => do some (.two (← a.toNat?) (← b.toNat?))
  | _ => none
/-- `none` | `dict:A` | `seq:` | `seq:A,B,…` -/
def kwArg? {α : Type} (f : String → Option α) (s : String) : Option (Axes.KwArg α) :=
  if s = "none" then some .none
  else if s.startsWith "dict:" then (f (s.drop 5).toString).map .dict
  else if s = "seq:" then some (.seq [])
  else if s.startsWith "seq:" then (((s.drop 4).toString.splitOn ",").mapM f).map .seq
  else none
def showCoord : Axes.Coord → String
  | .x => "x"
  | .z => "z"
/-- the 1-D method used to run the plan exactly: `Baseline(c).mor(v, half_window=hw)`, i.e. `mor` wrapped in the
sorting layer of `_Algorithm._register` (the fitter sorts by its coordinates, fits, and restores the order) -/
def morFit : Axes.Fit1 Nat := fun c hw v => (Perm.run1d (fun _ y _ => (Morph.mor hw y, [])) c v none).1

def handle : List String → Option String
  | ["c20.axesplan", m, n, axes, kw] => do
      let m ← m.toNat?
      let n ← n.toNat?
      match Axes.individualAxesPlan "{}" (← axesArg? axes) (← kwArg? some kw) with
      | .error _ => some "error#ValueError"
      | .ok steps => some ("ok#" ++ ";".intercalate (steps.map fun st =>
          s!"{st.axis}:{showCoord st.coord}:{st.kw}:{st.key}:{showNats (Axes.stepFits m n st.axis)}"))
  | ["c20.axesrun", axes, kw, x, z, data] => do
      let kw ← kwArg? String.toNat? kw
      -- `{}` would mean mor's automatic half-window, which the oracle does not model
      match kw with
      | .none => none
      | .seq [] => none
      | _ =>
        match Axes.individualAxes morFit 0 (← parseList? parseRat? x) (← parseList? parseRat? z) (← parseMat? data) (← axesArg? axes) kw with
        | .error _ => some "error#ValueError"
        | .ok (b, parts) => some ("ok#" ++ showMat b ++ "#" ++ "|".intercalate (parts.map fun kp => s!"{kp.1}={showMat kp.2}"))
  | ["c20.btwb", br, bc, w] => do
      let Br ← parseMat? br
      let Bc ← parseMat? bc
      let W ← parseMat? w
      let k := Mat.ncols Br * Mat.ncols Bc
      some (showMat ((List.range k).map fun r => (List.range k).map fun c => makeBtwb Br Bc W r c))
  | ["c20.rhs", br, bc, wy] => do
      let Br ← parseMat? br
      let Bc ← parseMat? bc
      let WY ← parseMat? wy
      some (showRats ((List.range (Mat.ncols Br * Mat.ncols Bc)).map fun r => rhsCode Br Bc WY r))
  | ["c20.recon", br, bc, coef] => do
      let Br ← parseMat? br
      let Bc ← parseMat? bc
      let c ← parseList? parseRat? coef
      some (showMat ((List.range Br.length).map fun m => (List.range Bc.length).map fun n => reconstruct Br Bc c m n))
  | ["c20.pen", lamr, lamc, er, ec] => do
      let er ← parseList? parseRat? er
      let ec ← parseList? parseRat? ec
      let lr ← parseRat? lamr
      let lc ← parseRat? lamc
      some (showRats ((List.range (er.length * ec.length)).map fun r => eigPenalty lr lc er ec r))
  | _ => none

end PbVerif.Drv.C20
