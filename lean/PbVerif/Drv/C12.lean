import PbVerif.Model.Proto
import PbVerif.Model.BSpline
namespace PbVerif.Drv.C12
open PbVerif PbVerif.Proto PbVerif.BSpline

def showMat (m : List (List Rat)) : String :=
  if m.isEmpty then "-" else ";".intercalate (m.map showRats)

def handle : List String → Option String
  | ["c12.basis", deg, knots, xs] => do
      let deg ← deg.toNat?
      let knots ← parseList? parseRat? knots
      let xs ← parseList? parseRat? xs
      let rows := designRows knots deg xs
      some (";".intercalate (rows.map fun r => s!"{r.left}:{showRats r.vals}"))
  | ["c12.find", deg, numBases, lastLeft, x, knots] => do
      let knots ← parseList? parseRat? knots
      let x ← parseRat? x
      let lt := fun i => decide (x < knots.getD i 0)
      let ge := fun i => decide (x ≥ knots.getD i 0)
      let r := findIntervalT lt ge (← deg.toNat?) (← lastLeft.toNat?) (← numBases.toNat?)
      some s!"{r.1}|{showNats r.2}"
  | ["c12.findo", deg, numBases, lastLeft, lts, ges] => do
      -- arbitrary comparison outcomes (bit strings indexed by knot index): index trace only
      let lts := lts.toList.map (· == '1')
      let ges := ges.toList.map (· == '1')
      let r := findIntervalT (fun i => lts.getD i false) (fun i => ges.getD i false) (← deg.toNat?) (← lastLeft.toNat?) (← numBases.toNat?)
      some s!"{r.1}|{showNats r.2}"
  | ["c12.deboor_idx", deg, left] => do
      let deg ← deg.toNat?
      let left ← left.toNat?
      some s!"{showInts (deBoorKnotReads deg left)}|{showNats (deBoorWorkTouch deg)}"
  | ["c12.btb", deg, knots, xs, ys, ws] => do
      let deg ← deg.toNat?
      let knots ← parseList? parseRat? knots
      let xs ← parseList? parseRat? xs
      let ys ← parseList? parseRat? ys
      let ws ← parseList? parseRat? ws
      let nb := knots.length - (deg + 1)
      let rows := designRows knots deg xs
      let r := btbBty deg nb rows ys ws
      let spec := (List.range (deg + 1)).map fun rr => (List.range nb).map fun c => btbSpec deg rows ws rr c
      let specy := (List.range nb).map fun c => btySpec deg rows ys ws c
      some s!"{showMat r.1}|{showRats r.2}|{if r.1 == spec && r.2 == specy then "1" else "0"}"
  | ["c12.cox", deg, knots, xs] => do
      let deg ← deg.toNat?
      let knots ← parseList? parseRat? knots
      let xs ← parseList? parseRat? xs
      let nb := knots.length - (deg + 1)
      some (showMat (xs.map fun x => (List.range nb).map fun i => cox knots deg i x))
  | ["c12.knots", xmin, xmax, nk, deg] => do
      some (showRats (splineKnots (← parseRat? xmin) (← parseRat? xmax) (← nk.toNat?) (← deg.toNat?)))
  | ["c12.xbasis", nk, deg, xs] => do
      -- knots from the extremes of x, then the design matrix of x on them (`pSplineBasis`, theorem basis_magnitude_free)
      let nk ← nk.toNat?
      let deg ← deg.toNat?
      let xs ← parseList? parseRat? xs
      let rows := pSplineBasis xs nk deg
      some s!"{showRats (xKnots xs nk deg)}|{";".intercalate (rows.map fun r => s!"{r.left}:{showRats r.vals}")}"
  | ["c12.midcount", nk, deg] => do some (toString (basisMidpointsCount (← nk.toNat?) (← deg.toNat?)))
  | _ => none

end PbVerif.Drv.C12
