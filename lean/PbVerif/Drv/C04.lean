import PbVerif.Model.Proto
import PbVerif.Model.Threads
namespace PbVerif.Drv.C04
open PbVerif PbVerif.Proto PbVerif.Threads

def b? : String → Option Bool
  | "1" => some true | "0" => some false | _ => none

def showL1 : Lazy1.Act → String
  | .rX => "rX" | .wX => "wX" | .wSize => "wSize" | .wShape => "wShape" | .rSize => "rSize"
def showL2 : Lazy2.Act → String
  | .rX => "rX" | .rZ => "rZ" | .rShape => "rShape" | .wShape => "wShape" | .wSize => "wSize" | .wX => "wX" | .wZ => "wZ"
def showP : Poly.Act → String
  | .rRef => "rRef" | .wRef => "wRef" | .rV => "rV" | .wV => "wV" | .rPo => "rPo" | .wPo => "wPo"
  | .rStale => "rStale" | .wStale => "wStale" | .rPinv => "rPinv" | .wPinv => "wPinv"
def showP2 : Poly2.Act → String
  | .rRef => "rRef" | .wRef => "wRef" | .rV => "rV" | .wV => "wV" | .rMc => "rMc" | .wMc => "wMc" | .rPo => "rPo" | .wPo => "wPo"
  | .rStale => "rStale" | .wStale => "wStale" | .rPinv => "rPinv" | .wPinv => "wPinv"
def showB : Basis.Act → String
  | .rRef => "rRef" | .wRef => "wRef"

def polyInit? : List String → Option Poly.Sh
  | ["cold"] => some Poly.cold
  | ["warm", j, pd] => do some (Poly.warm (← j.toNat?) (← b? pd))
  | _ => none

def showPc1 : Lazy1.PC → String
  | .ok => "ok" | .fail => "fail" | _ => "running"
def showPc2 : Lazy2.PC → String
  | .ok => "ok" | .fail => "fail" | _ => "running"
def showThr (t : Poly.Thr) : String :=
  let pc := match t.pc with | .done => "done" | .error => "error" | _ => "running"
  let g := match t.gotPinv with | none => "-" | some none => "none" | some (some j) => toString j
  s!"{pc}:{if t.usedOk then 1 else 0}:{g}"

def sp (l : List String) : String := if l.isEmpty then "-" else " ".intercalate l

def handle : List String → Option String
  | ["c04.trace", "lazy1", xLast, given] => do
      let s0 : Lazy1.Sh := if (← b? given) then ⟨true, true, true⟩ else Lazy1.init
      some (sp ((soloTrace (Lazy1.proto (← b? xLast)) 10 s0 .start).map showL1))
  | ["c04.trace", "lazy2", fixed, hx, hz] => do
      some (sp ((soloTrace (Lazy2.proto (← b? fixed)) 20 (Lazy2.init (← b? hx) (← b? hz)) .start).map showL2))
  | ["c04.trace", "poly", init, k, calcPinv, uses] => do
      let s0 ← polyInit? (init.splitOn ":")
      let uses ← uses.toNat?
      some (sp ((soloTrace Poly.proto (30 + 2 * uses) s0 (Poly.thread (← k.toNat?) (← b? calcPinv) uses)).map showP))
  | ["c04.trace", "poly2", init, a, b, calcPinv, uses] => do
      let s0 ← (match init.splitOn ":" with
        | ["cold"] => some Poly2.cold
        | ["warm", a0, b0, pd] => do some (Poly2.warm (← a0.toNat?) (← b0.toNat?) (← b? pd))
        | _ => none)
      let uses ← uses.toNat?
      some (sp ((soloTrace Poly2.proto (30 + 2 * uses) s0 (Poly2.thread (← a.toNat?) (← b.toNat?) (← b? calcPinv) uses)).map showP2))
  | ["c04.trace", "basis", init, p] => do
      let pr := fun (t : String) => match t.splitOn ":" with
        | [a, b] => do some ((← a.toNat?), (← b.toNat?))
        | _ => none
      let s0 : Basis.Sh ← (if init == "none" then some ⟨none⟩ else do some ⟨some (← pr init)⟩)
      some (sp ((soloTrace (Basis.proto (← pr p)) 8 s0 .start).map showB))
  | ["c04.run", "lazy1", xLast, n, sched] => do
      let r := runSched (Lazy1.proto (← b? xLast)) Lazy1.init (List.replicate (← n.toNat?) .start) (← parseList? String.toNat? sched)
      some (sp (r.2.map showPc1))
  | ["c04.run", "lazy2", fixed, hx, hz, n, sched] => do
      let r := runSched (Lazy2.proto (← b? fixed)) (Lazy2.init (← b? hx) (← b? hz)) (List.replicate (← n.toNat?) .start) (← parseList? String.toNat? sched)
      some (sp (r.2.map showPc2))
  | ["c04.run", "poly", init, ks, calcPinv, uses, sched] => do
      let s0 ← polyInit? (init.splitOn ":")
      let ks ← parseList? String.toNat? ks
      let cp ← b? calcPinv
      let uses ← uses.toNat?
      let r := runSched Poly.proto s0 (ks.map fun k => Poly.thread k cp uses) (← parseList? String.toNat? sched)
      some (sp (r.2.map showThr))
  | _ => none

end PbVerif.Drv.C04
