import PbVerif.Model.Proto
import PbVerif.Model.PSpline
namespace PbVerif.Drv.C07
open PbVerif PbVerif.Proto PbVerif.PSpline PbVerif.BSpline

def showMat (m : List (List Rat)) : String :=
  if m.isEmpty then "-" else ";".intercalate (m.map showRats)

def handle : List String → Option String
  | ["c07.berr", kind, deg, d, lam, p1, knots, xs, ys, ws, aux, c] => do
      let r := backwardErrorP (← deg.toNat?) (← d.toNat?) (← parseRat? lam) (← parseRat? p1) (← kind.toNat?)
        (← parseList? parseRat? knots) (← parseList? parseRat? xs) (← parseList? parseRat? ys) (← parseList? parseRat? ws)
        (← parseList? parseRat? aux) (← parseList? parseRat? c)
      some s!"{showRat r.1} {showRat r.2}"
  | ["c07.berr2", degR, degC, dR, dC, lamR, lamC, iasls, lam1R, lam1C, knotsR, knotsC, xs, zs, Y, W, C] => do
      let pm := fun (t : String) => (t.splitOn ";").mapM (parseList? parseRat?)
      let r := backwardErrorP2 (← degR.toNat?) (← degC.toNat?) (← dR.toNat?) (← dC.toNat?) (← parseRat? lamR) (← parseRat? lamC)
        (iasls == "1") (← parseRat? lam1R) (← parseRat? lam1C)
        (← parseList? parseRat? knotsR) (← parseList? parseRat? knotsC) (← parseList? parseRat? xs) (← parseList? parseRat? zs)
        (← pm Y) (← pm W) (← pm C)
      some s!"{showRat r.1} {showRat r.2}"
  | ["c07.bc2", degR, degC, knotsR, knotsC, xs, zs, C] => do
      let pm := fun (t : String) => (t.splitOn ";").mapM (parseList? parseRat?)
      let degR ← degR.toNat?
      let degC ← degC.toNat?
      some (showMat (applyB2 degR degC (designRows (← parseList? parseRat? knotsR) degR (← parseList? parseRat? xs))
        (designRows (← parseList? parseRat? knotsC) degC (← parseList? parseRat? zs)) (← pm C)))
  | ["c07.mid", deg, knots] => do some (showRats (basisMidpoints (← parseList? parseRat? knots) (← deg.toNat?)))
  | ["c07.interp", xs, vs, ts] => do
      let xs ← parseList? parseRat? xs
      let vs ← parseList? parseRat? vs
      some (showRats ((← parseList? parseRat? ts).map (npInterp xs vs)))
  | ["c07.bc", deg, knots, xs, c] => do
      let deg ← deg.toNat?
      let knots ← parseList? parseRat? knots
      some (showRats (applyB deg (designRows knots deg (← parseList? parseRat? xs)) (← parseList? parseRat? c)))
  | ["c07.asm", deg, d, lam, knots, xs, ys, ws] => do
      let deg ← deg.toNat?
      let knots ← parseList? parseRat? knots
      let nb := knots.length - (deg + 1)
      let r := asmPspline deg nb (← d.toNat?) (← parseRat? lam) (designRows knots deg (← parseList? parseRat? xs)) (← parseList? parseRat? ys) (← parseList? parseRat? ws)
      some s!"{showMat r.1}|{showRats r.2}"
  | ["c07.asmx", kind, deg, d, lam, p1, lower, knots, xs, ys, ws, aux] => do
      -- kind 1 iasls (p1 = lam_1, lower = pspline.lower), 2 drpls (p1 = eta), 3 aspls (aux = alpha)
      let deg ← deg.toNat?
      let d ← d.toNat?
      let lam ← parseRat? lam
      let p1 ← parseRat? p1
      let knots ← parseList? parseRat? knots
      let xs ← parseList? parseRat? xs
      let ys ← parseList? parseRat? ys
      let ws ← parseList? parseRat? ws
      let aux ← parseList? parseRat? aux
      let nb := knots.length - (deg + 1)
      let rows := designRows knots deg xs
      let r ← match kind with
        | "1" => some (asmPIasls deg nb d lam p1 rows ys ws (lower == "1"))
        | "2" => some (asmPDrpls deg nb d lam p1 rows ys ws (interpMid knots xs ws deg))
        | "3" => some (asmPAspls deg nb d lam rows ys ws (interpMid knots xs aux deg))
        | _ => none
      some s!"{showMat r.1}|{showRats r.2}"
  | _ => none

end PbVerif.Drv.C07
