import PbVerif.Model.Proto
import PbVerif.Model.PSpline
namespace PbVerif.Drv.C07
open PbVerif PbVerif.Proto PbVerif.PSpline PbVerif.BSpline

def showMat (m : List (List Rat)) : String :=
  if m.isEmpty then "-" else ";".intercalate (m.map showRats)

def handle : List String → Option String
  | ["c07.berr", deg, d, lam, lam1, iasls, knots, xs, ys, ws, c] => do
      let r := backwardErrorP (← deg.toNat?) (← d.toNat?) (← parseRat? lam) (← parseRat? lam1) (iasls == "1")
        (← parseList? parseRat? knots) (← parseList? parseRat? xs) (← parseList? parseRat? ys) (← parseList? parseRat? ws) (← parseList? parseRat? c)
      some s!"{showRat r.1} {showRat r.2}"
  | ["c07.bc", deg, knots, xs, c] => do
      let deg ← deg.toNat?
      let knots ← parseList? parseRat? knots
      some (showRats (applyB deg (designRows knots deg (← parseList? parseRat? xs)) (← parseList? parseRat? c)))
  | ["c07.asm", deg, d, lam, knots, xs, ys, ws] => do
      let deg ← deg.toNat?
      let knots ← parseList? parseRat? knots
      let nb := knots.length - (deg + 1)
      let r := asmPspline deg nb (← d.toNat?) (← parseRat? lam) (designRows knots deg (← parseList? parseRat? xs)) (← parseList? parseRat? ys) (← parseList? parseRat? ws)
      some s!"{showMat r.1}|{showRats r.2}"
  | _ => none

end PbVerif.Drv.C07
