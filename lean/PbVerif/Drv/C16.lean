import PbVerif.Model.Proto
import PbVerif.Model.Wrapper
import PbVerif.Model.Loop
namespace PbVerif.Drv.C16
open PbVerif PbVerif.Proto PbVerif.Wrapper PbVerif.Loop

def handle : List String → Option String
  | ["c16.canon", two, shape] => do
      let s ← parseList? parseNat? shape
      let r := if two == "1" then
          (match Validate.checkArrayShape s false true true with | .ok sh => "ok:" ++ showNats sh | .valueError => "ValueError" | .typeError => "TypeError")
        else
          (match Validate.checkArrayShape s true false false with | .ok sh => "ok:" ++ showNats sh | .valueError => "ValueError" | .typeError => "TypeError")
      some r
  | ["c16.linspace", n] => do some (showRats (linspaceX (← n.toNat?)))
  | ["c01.loop", budget, tol, ds, exitAt] => do
      -- ds: the difference stream; exitAt: index of the early exit or N
      let ds ← parseList? parseRat? ds
      let e : Option Nat := if exitAt == "N" then none else exitAt.toNat?
      let r := runLoop (← budget.toNat?) (← parseRat? tol) (fun k => ds.getD k 0) (fun k => e == some k)
      let ret := returned (← budget.toNat?) (← parseRat? tol) (fun k => ds.getD k 0) (fun k => e == some k)
      let reason := match r.2 with | .converged => "converged" | .exhausted => "exhausted" | .early => "early"
      some s!"{r.1} {reason} {ret.1}"
  | _ => none

end PbVerif.Drv.C16
