#!/bin/sh
# thorough (or quick) sweep of every check on a scratch copy of the repository: `vp run --with-repo -- sh tools_sweep.sh thorough "1 2"`
TIER="${1:-thorough}"; SEEDS="${2:-0}"
REPO="${VP_RUN_REPO:-/repo}"
export PBV_REPO="$REPO" PYTHONPATH="$REPO"
./check --setup || exit 3
for s in $SEEDS; do
  for c in C01 C02 C03 C04 C05 C06 C07 C08 C09 C10 C11 C12 C13 C14 C15 C16 C17 C18 C19 C20; do
    start=$(date +%s)
    VERIF_SEED=$s ./check $c --tier $TIER > sweep_$c.log 2>&1; rc=$?
    echo "seed=$s $c tier=$TIER exit=$rc $(( $(date +%s) - start ))s $(grep -c VIOLATION sweep_$c.log) violations"
    [ $rc -ne 0 ] && grep -E "VIOLATION|\] c[0-9]+\.|failed=" sweep_$c.log | head -5
  done
done
